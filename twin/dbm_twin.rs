//! Twin run: the verification model of the tower DBM (models/dbm_tower.rs, the one Kani harnesses run against) and the
//! real sqlite-backed `teos::dbm::DBM` execute the same pseudo-random operation sequences natively; every observable
//! result must agree. This validates the *encoding* (the brief: "validate the translator by pushing inputs through both
//! the real function and the encoding"); it is sampling, not a solver verdict, and is reported as such. A disagreement
//! means either the model is wrong or the SQL no longer implements the contract the Kani claims assume: both are
//! reported (MODEL-DRIFT), with the operation sequence as replay.
//!
//! Compiled only with `RUSTFLAGS="--cfg teos_verif_twin"` in `cargo test` (hook at the end of teos/src/lib.rs).
#![allow(clippy::all)]
use std::collections::HashSet;
use std::iter::FromIterator;

use bitcoin::absolute::LockTime;
use bitcoin::hashes::Hash;
use bitcoin::{Amount, OutPoint, ScriptBuf, Sequence, Transaction, TxIn, TxOut, Witness};

use teos_common::appointment::{Appointment, Locator};
use teos_common::cryptography::get_random_keypair;
use teos_common::UserId;

use crate::dbm::DBM as RealDBM;
use crate::extended_appointment::{ExtendedAppointment, UUID};
use crate::gatekeeper::UserInfo;
use crate::responder::{ConfirmationStatus, TransactionTracker};
use crate::verif_dbm_model::DBM as ModelDBM;

struct Rng(u64);
impl Rng {
    fn next(&mut self) -> u64 {
        self.0 ^= self.0 << 13;
        self.0 ^= self.0 >> 7;
        self.0 ^= self.0 << 17;
        self.0
    }
    fn below(&mut self, n: u64) -> u64 {
        self.next() % n
    }
}

fn real_tx(n: u32) -> Transaction {
    Transaction {
        version: bitcoin::transaction::Version::TWO,
        lock_time: LockTime::from_consensus(n),
        input: vec![TxIn { previous_output: OutPoint::null(), script_sig: ScriptBuf::new(), sequence: Sequence::MAX, witness: Witness::new() }],
        output: vec![TxOut { value: Amount::from_sat(1), script_pubkey: ScriptBuf::new() }],
    }
}

fn locator(i: u8) -> Locator {
    let mut b = [0u8; 16];
    b[0] = i;
    Locator::from_slice(&b).unwrap()
}
fn uuid(i: u8) -> UUID {
    let mut b = [0u8; 20];
    b[0] = i;
    UUID::from_slice(&b).unwrap()
}

fn any_status(r: &mut Rng) -> ConfirmationStatus {
    match r.below(4) {
        0 => ConfirmationStatus::ConfirmedIn(r.below(6) as u32),
        1 => ConfirmationStatus::InMempoolSince(r.below(6) as u32),
        2 => ConfirmationStatus::IrrevocablyResolved,
        _ => ConfirmationStatus::Rejected(-26),
    }
}

fn any_appointment(r: &mut Rng, users: &[UserId]) -> ExtendedAppointment {
    let len = [0usize, 1, 2, 3, 2048, 2049][r.below(6) as usize];
    let mut blob = vec![0u8; len];
    for b in blob.iter_mut().take(2) {
        *b = r.below(250) as u8;
    }
    let sig = ["", "a", "b", "c"][r.below(4) as usize];
    ExtendedAppointment::new(
        Appointment::new(locator(r.below(3) as u8), blob, r.below(1000) as u32),
        users[r.below(users.len() as u64) as usize],
        sig.to_owned(),
        r.below(1000) as u32,
    )
}

/// What both sides are compared on (the model keeps the first two blob bytes and the first signature byte).
fn app_view(a: &ExtendedAppointment) -> (Locator, usize, Vec<u8>, u32, Option<u8>, u32, UserId) {
    (
        a.locator(),
        a.encrypted_blob().len(),
        a.encrypted_blob().iter().take(2).cloned().collect(),
        a.to_self_delay(),
        a.user_signature.as_bytes().first().cloned(),
        a.start_block,
        a.user_id,
    )
}
fn tracker_view(t: &TransactionTracker) -> (u32, u32, ConfirmationStatus, UserId) {
    (t.dispute_tx.lock_time.to_consensus_u32(), t.penalty_tx.lock_time.to_consensus_u32(), t.status, t.user_id)
}

fn res<T, E>(r: &Result<T, E>) -> bool {
    r.is_ok()
}

macro_rules! agree {
    ($log:expr, $what:expr, $a:expr, $b:expr) => {
        if $a != $b {
            panic!("MODEL-DRIFT at `{}`: real = {:?}, model = {:?}\nsequence:\n{}", $what, $a, $b, $log.join("\n"));
        }
    };
}

fn compare_state(log: &[String], real: &RealDBM, model: &ModelDBM, users: &[UserId]) {
    let ru = real.load_all_users();
    let mu = model.load_all_users();
    for u in users {
        agree!(log, "load_all_users", ru.get(u).cloned(), mu.get(u).cloned());
        let mut rl = real.load_user_locators(*u);
        let mut ml = model.load_user_locators(*u);
        rl.sort_by_key(|l| l.to_vec());
        ml.sort_by_key(|l| l.to_vec());
        agree!(log, "load_user_locators", rl, ml);
    }
    agree!(log, "users count", ru.len(), mu.len());
    agree!(log, "get_appointments_count", real.get_appointments_count(), model.get_appointments_count());
    agree!(log, "get_trackers_count", real.get_trackers_count(), model.get_trackers_count());
    for i in 0..4u8 {
        let id = uuid(i);
        agree!(log, "appointment_exists", real.appointment_exists(id), model.appointment_exists(id));
        agree!(log, "load_appointment", real.load_appointment(id).as_ref().map(app_view), model.load_appointment(id).as_ref().map(app_view));
        agree!(log, "get_appointment_length", real.get_appointment_length(id), model.get_appointment_length(id));
        agree!(log, "get_appointment_user_and_length", real.get_appointment_user_and_length(id), model.get_appointment_user_and_length(id));
        agree!(log, "tracker_exists", real.tracker_exists(id), model.tracker_exists(id));
        agree!(log, "load_tracker", real.load_tracker(id).as_ref().map(tracker_view), model.load_tracker(id).as_ref().map(tracker_view));
    }
    for l in 0..3u8 {
        let mut a: Vec<Vec<u8>> = real.load_uuids(locator(l)).iter().map(|u| u.to_vec()).collect();
        let mut b: Vec<Vec<u8>> = model.load_uuids(locator(l)).iter().map(|u| u.to_vec()).collect();
        a.sort();
        b.sort();
        agree!(log, "load_uuids", a, b);
        let ra: HashSet<Vec<u8>> = real.load_appointments(Some(locator(l))).keys().map(|u| u.to_vec()).collect();
        let ma: HashSet<Vec<u8>> = model.load_appointments(Some(locator(l))).iter().map(|(u, _)| u.to_vec()).collect();
        agree!(log, "load_appointments(locator)", ra, ma);
        let rt: HashSet<Vec<u8>> = real.load_trackers(Some(locator(l))).keys().map(|u| u.to_vec()).collect();
        let mt: HashSet<Vec<u8>> = model.load_trackers(Some(locator(l))).iter().map(|(u, _)| u.to_vec()).collect();
        agree!(log, "load_trackers(locator)", rt, mt);
    }
    let all = [locator(0), locator(1), locator(2)];
    let a: HashSet<Vec<u8>> = HashSet::from_iter(real.batch_check_locators_exist(all.iter().collect()).iter().map(|l| l.to_vec()));
    let b: HashSet<Vec<u8>> = HashSet::from_iter(model.batch_check_locators_exist(all.iter().collect()).iter().map(|l| l.to_vec()));
    agree!(log, "batch_check_locators_exist", a, b);
    // every non-empty subset of the locators, in both orders (several rows may share one locator: the answer is about
    // locators, not rows)
    for mask in 1..8u8 {
        let mut sub: Vec<Locator> = (0..3u8).filter(|l| mask & (1 << l) != 0).map(locator).collect();
        for _ in 0..2 {
            let a: HashSet<Vec<u8>> = HashSet::from_iter(real.batch_check_locators_exist(sub.iter().collect()).iter().map(|l| l.to_vec()));
            let b: HashSet<Vec<u8>> = HashSet::from_iter(model.batch_check_locators_exist(sub.iter().collect()).iter().map(|l| l.to_vec()));
            agree!(log, "batch_check_locators_exist(subset)", a, b);
            sub.reverse();
        }
    }
    let ra: HashSet<Vec<u8>> = real.load_appointments(None).keys().map(|u| u.to_vec()).collect();
    let ma: HashSet<Vec<u8>> = model.load_appointments(None).iter().map(|(u, _)| u.to_vec()).collect();
    agree!(log, "load_appointments(None)", ra, ma);
    let mut rp: Vec<(Vec<u8>, ConfirmationStatus)> = real.load_penalties_summaries().iter().map(|(u, p)| (u.to_vec(), p.status)).collect();
    let mut mp: Vec<(Vec<u8>, ConfirmationStatus)> = model.load_penalties_summaries().iter().map(|(u, p)| (u.to_vec(), p.status)).collect();
    rp.sort_by_key(|x| x.0.clone());
    mp.sort_by_key(|x| x.0.clone());
    agree!(log, "load_penalties_summaries", format!("{:?}", rp), format!("{:?}", mp));
    for h in 0..6u32 {
        for st in [ConfirmationStatus::ConfirmedIn(h), ConfirmationStatus::InMempoolSince(h)] {
            let mut a: Vec<Vec<u8>> = real.load_trackers_with_confirmation_status(st).unwrap().iter().map(|u| u.to_vec()).collect();
            let mut b: Vec<Vec<u8>> = model.load_trackers_with_confirmation_status(st).unwrap().iter().map(|u| u.to_vec()).collect();
            a.sort();
            b.sort();
            agree!(log, "load_trackers_with_confirmation_status", a, b);
        }
    }
    agree!(log, "load_trackers_with_confirmation_status(IrrevocablyResolved) is an error",
        real.load_trackers_with_confirmation_status(ConfirmationStatus::IrrevocablyResolved).is_err(),
        model.load_trackers_with_confirmation_status(ConfirmationStatus::IrrevocablyResolved).is_err());
}

#[test]
fn verif_dbm_twin() {
    let seed: u64 = std::env::var("VERIF_SEED").ok().and_then(|s| s.parse().ok()).unwrap_or(0);
    let runs: u64 = std::env::var("VERIF_TWIN_RUNS").ok().and_then(|s| s.parse().ok()).unwrap_or(40);
    let steps: u64 = std::env::var("VERIF_TWIN_STEPS").ok().and_then(|s| s.parse().ok()).unwrap_or(30);
    let users: Vec<UserId> = (0..3).map(|_| UserId(get_random_keypair().1)).collect();
    let mut ops_total = 0u64;
    let mut kinds = HashSet::new();
    for run in 0..runs {
        let mut r = Rng(0x9E3779B97F4A7C15 ^ (seed.wrapping_mul(1000003) + run + 1));
        let mut real = RealDBM::in_memory().unwrap();
        let mut model = ModelDBM::default();
        model.verif_reset();
        let mut log: Vec<String> = vec![format!("seed={} run={}", seed, run)];
        for _ in 0..steps {
            let op = r.below(11);
            kinds.insert(op);
            ops_total += 1;
            match op {
                0 => {
                    let u = users[r.below(3) as usize];
                    let info = UserInfo::new(r.below(50) as u32, r.below(50) as u32, r.below(50) as u32);
                    log.push(format!("store_user(user{:?}, {:?})", users.iter().position(|x| *x == u), info));
                    agree!(log, "store_user", res(&real.store_user(u, &info)), res(&model.store_user(u, &info)));
                }
                1 => {
                    let u = users[r.below(3) as usize];
                    let info = UserInfo::new(r.below(50) as u32, r.below(50) as u32, r.below(50) as u32);
                    log.push(format!("update_user(user{:?}, {:?})", users.iter().position(|x| *x == u), info));
                    real.update_user(u, &info);
                    model.update_user(u, &info);
                }
                2 => {
                    let id = r.below(4) as u8;
                    let a = any_appointment(&mut r, &users);
                    log.push(format!("store_appointment(uuid{}, {:?})", id, app_view(&a)));
                    agree!(log, "store_appointment", res(&real.store_appointment(uuid(id), &a)), res(&model.store_appointment(uuid(id), &a)));
                }
                3 => {
                    let id = r.below(4) as u8;
                    let a = any_appointment(&mut r, &users);
                    log.push(format!("update_appointment(uuid{}, {:?})", id, app_view(&a)));
                    agree!(log, "update_appointment", res(&real.update_appointment(uuid(id), &a)), res(&model.update_appointment(uuid(id), &a)));
                }
                4 => {
                    let id = r.below(4) as u8;
                    let st = any_status(&mut r);
                    let (d, p) = (100 + r.below(3) as u32, 200 + r.below(3) as u32);
                    let owner = users[r.below(3) as usize];
                    log.push(format!("store_tracker(uuid{}, dispute {}, penalty {}, {:?})", id, d, p, st));
                    let t_real = TransactionTracker { dispute_tx: real_tx(d), penalty_tx: real_tx(p), status: st, user_id: owner };
                    // the model identifies transactions by lock time
                    let t_model = TransactionTracker { dispute_tx: crate::verif_stubs::tx(d), penalty_tx: crate::verif_stubs::tx(p), status: st, user_id: owner };
                    agree!(log, "store_tracker", res(&real.store_tracker(uuid(id), &t_real)), res(&model.store_tracker(uuid(id), &t_model)));
                }
                5 => {
                    let id = r.below(4) as u8;
                    let st = any_status(&mut r);
                    log.push(format!("update_tracker_status(uuid{}, {:?})", id, st));
                    agree!(log, "update_tracker_status", res(&real.update_tracker_status(uuid(id), &st)), res(&model.update_tracker_status(uuid(id), &st)));
                }
                6 => {
                    let id = r.below(4) as u8;
                    log.push(format!("remove_appointment(uuid{})", id));
                    real.remove_appointment(uuid(id));
                    model.remove_appointment(uuid(id));
                }
                7 => {
                    let ids: Vec<UUID> = (0..4u8).filter(|_| r.below(2) == 0).map(uuid).collect();
                    let mut up_real = std::collections::HashMap::new();
                    let mut up_model = crate::verif_collections::HashMap::new();
                    if r.below(2) == 0 {
                        let u = users[r.below(3) as usize];
                        let info = UserInfo::new(r.below(50) as u32, 77, 88);
                        up_real.insert(u, info);
                        up_model.insert(u, info);
                    }
                    log.push(format!("batch_remove_appointments({:?}, {} updated users)", ids.iter().map(|u| u.to_vec()[0]).collect::<Vec<_>>(), up_real.len()));
                    if !ids.is_empty() {
                        real.batch_remove_appointments(&ids, &up_real);
                        model.batch_remove_appointments(&ids, &up_model);
                    }
                }
                8 => {
                    let us: Vec<UserId> = users.iter().filter(|_| r.below(3) == 0).cloned().collect();
                    log.push(format!("batch_remove_users({} users)", us.len()));
                    if !us.is_empty() {
                        real.batch_remove_users(&us);
                        model.batch_remove_users(&us);
                    }
                }
                9 => {
                    let h = bitcoin::BlockHash::from_byte_array([r.below(200) as u8; 32]);
                    log.push("store_last_known_block".to_owned());
                    agree!(log, "store_last_known_block", res(&real.store_last_known_block(&h)), res(&model.store_last_known_block(&h)));
                    agree!(log, "load_last_known_block", real.load_last_known_block(), model.load_last_known_block());
                }
                _ => {
                    log.push("(observe)".to_owned());
                }
            }
            compare_state(&log, &real, &model, &users);
        }
    }
    println!("TWIN-OK runs={} ops={} op_kinds={}", runs, ops_total, kinds.len());
}
