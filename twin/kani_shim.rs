//! Native stand-in for the few `kani::` calls the models contain (only used by the twin run; never under Kani).
#![allow(dead_code)]
pub fn assume(c: bool) {
    if !c {
        panic!("model bound exceeded (kani::assume(false))");
    }
}
pub fn any<T>() -> T {
    panic!("kani::any() is not available in the native twin run")
}
