#!/bin/bash
# Offline setup of the verification framework: directory source for cargo, private CARGO_HOME, warm-up builds.
set -u
cd /verif
mkdir -p .cache/cargo-home .cache/out evidence/replay
python3 tools/mkvendor.py /verif/.cache/vendor || exit 1
cat > .cache/cargo-home/config.toml <<'EOC'
[source.crates-io]
replace-with = "verif-vendor"
[source.verif-vendor]
directory = "/verif/.cache/vendor"
[net]
offline = true
EOC
# warm-up: dependency artefacts for Kani (per crate) — failures here are reported by the checks themselves
export CARGO_HOME=/verif/.cache/cargo-home CARGO_NET_OFFLINE=true RUSTFLAGS="--cfg secp256k1_fuzz"
for c in ${VERIF_WARM_CRATES:-teos}; do
  case $c in
    teos) t=kani-teos;; teos-common) t=kani-common;; watchtower-plugin) t=kani-plugin;;
  esac
  (cd /repo/$c && timeout 1800 cargo kani --lib --target-dir /verif/.cache/$t -Z stubbing -Z unstable-options -Z async-lib --only-codegen >/verif/.cache/out/setup-$c.log 2>&1; echo "warm-up $c rc=$?")
done
exit 0
