//! Kani harnesses for teos-common (child module of teos-common/src/lib.rs under cfg(kani)).
use crate::appointment::{compute_appointment_slots, Appointment, Locator};
use crate::constants::ENCRYPTED_BLOB_MAX_SIZE;
use crate::receipts::{AppointmentReceipt, RegistrationReceipt};

/// C07.K1: the f32 slot formula equals max(1, ceil(n / 2048)) computed in integers, for every blob length up to 2^24
/// bytes (16 MiB; the gRPC message cap is 4 MiB), bit-precise IEEE-754 semantics.
#[kani::proof]
fn c07_k1_slot_formula() {
    let n: usize = kani::any();
    kani::assume(n <= (1 << 24));
    let s = compute_appointment_slots(n, ENCRYPTED_BLOB_MAX_SIZE);
    let ceil = ((n + 2047) / 2048) as u32;
    assert!(n == 0 || s == ceil, "C07.slots: slots = ceil(len / 2048) for every non-empty blob");
    assert!(s >= 1, "C07.slots: an appointment never costs less than one slot");
    kani::cover!(n == 2049 && s == 2, "reach-boundary");
}

/// Reports (as a cover witness) that the f32 formula does go wrong above the claimed range: some n <= 2^26 has
/// slots != ceil. Kept as evidence of where the bound comes from; not an obligation.
#[kani::proof]
fn c07_k1_slot_formula_breaks_above_bound() {
    let n: usize = kani::any();
    kani::assume(n > (1 << 24) && n <= (1 << 26));
    let s = compute_appointment_slots(n, ENCRYPTED_BLOB_MAX_SIZE);
    let ceil = ((n + 2047) / 2048) as u32;
    kani::cover!(s != ceil, "f32-rounding-breaks-the-formula-above-2^24");
}

fn any_ascii<const N: usize>() -> ([u8; N], usize) {
    let b: [u8; N] = kani::any();
    let len: usize = kani::any();
    kani::assume(len <= N);
    let mut i = 0;
    while i < N {
        kani::assume(b[i] < 0x80);
        i += 1;
    }
    (b, len)
}

/// C08.K1a: the signed bytes of an appointment receipt are `user_signature || start_block (BE)`: they determine both
/// fields (the last four bytes are the start block, everything before is the signature).
#[kani::proof]
#[kani::unwind(10)]
fn c08_k1_appointment_receipt_layout() {
    let (b, len) = any_ascii::<4>();
    let sig = std::str::from_utf8(&b[..len]).unwrap().to_owned();
    let start: u32 = kani::any();
    let r = AppointmentReceipt::new(sig, start);
    let v = r.to_vec();
    assert!(v.len() == len + 4, "C08.layout: appointment receipt = signature bytes + 4");
    let mut i = 0;
    while i < len {
        assert!(v[i] == b[i], "C08.layout: appointment receipt starts with the user's signature");
        i += 1;
    }
    let be = start.to_be_bytes();
    assert!(v[len] == be[0] && v[len + 1] == be[1] && v[len + 2] == be[2] && v[len + 3] == be[3],
        "C08.layout: appointment receipt ends with the start block (big endian)");
    assert!(r.user_signature().len() == len && r.start_block() == start && r.signature().is_none(),
        "C08.layout: accessors return the fields");
    kani::cover!(len == 4, "reach");
    std::mem::forget(v);
    std::mem::forget(r);
}

/// C08.K1b / C16: the signed bytes of an appointment are `locator (16) || blob || to_self_delay (BE)`.
#[kani::proof]
#[kani::unwind(20)]
fn c08_k1_appointment_layout() {
    let l: [u8; 16] = kani::any();
    let blob: [u8; 3] = kani::any();
    let len: usize = kani::any();
    kani::assume(len <= 3);
    let d: u32 = kani::any();
    let a = Appointment::new(Locator::from_slice(&l).unwrap(), blob[..len].to_vec(), d);
    let v = a.to_vec();
    assert!(v.len() == 16 + len + 4, "C08.layout: appointment = 16 + blob + 4 bytes");
    let mut i = 0;
    while i < 16 {
        assert!(v[i] == l[i], "C08.layout: appointment starts with the locator");
        i += 1;
    }
    let mut i = 0;
    while i < len {
        assert!(v[16 + i] == blob[i], "C08.layout: then the blob");
        i += 1;
    }
    let be = d.to_be_bytes();
    assert!(v[16 + len] == be[0] && v[17 + len] == be[1] && v[18 + len] == be[2] && v[19 + len] == be[3],
        "C08.layout: then to_self_delay (big endian)");
    kani::cover!(len == 3, "reach");
    std::mem::forget(v);
    std::mem::forget(a);
}

