//! Kani harnesses for teos-common (child module of teos-common/src/lib.rs under cfg(kani)).
use crate::appointment::{compute_appointment_slots, Appointment, Locator};
use crate::constants::ENCRYPTED_BLOB_MAX_SIZE;
use crate::receipts::{AppointmentReceipt, RegistrationReceipt};

/// C07.K1: the f32 slot formula equals max(1, ceil(n / 2048)) computed in integers, for every blob length up to 2^24
/// bytes (16 MiB; the gRPC message cap is 4 MiB), bit-precise IEEE-754 semantics.
#[kani::proof]
fn c07_k1_slot_formula() {
    let n: usize = kani::any();
    kani::assume(n <= (1 << 24));
    let s = compute_appointment_slots(n, ENCRYPTED_BLOB_MAX_SIZE);
    let ceil = ((n + 2047) / 2048) as u32;
    assert!(n == 0 || s == ceil, "C07.slots: slots = ceil(len / 2048) for every non-empty blob");
    assert!(s >= 1, "C07.slots: an appointment never costs less than one slot");
    kani::cover!(n == 2049 && s == 2, "reach-boundary");
}

/// Reports (as a cover witness) that the f32 formula does go wrong above the claimed range: some n <= 2^26 has
/// slots != ceil. Kept as evidence of where the bound comes from; not an obligation.
#[kani::proof]
fn c07_k1_slot_formula_breaks_above_bound() {
    let n: usize = kani::any();
    kani::assume(n > (1 << 24) && n <= (1 << 26));
    let s = compute_appointment_slots(n, ENCRYPTED_BLOB_MAX_SIZE);
    let ceil = ((n + 2047) / 2048) as u32;
    kani::cover!(s != ceil, "f32-rounding-breaks-the-formula-above-2^24");
}

fn any_ascii<const N: usize>() -> ([u8; N], usize) {
    let b: [u8; N] = kani::any();
    let len: usize = kani::any();
    kani::assume(len <= N);
    let mut i = 0;
    while i < N {
        kani::assume(b[i] < 0x80);
        i += 1;
    }
    (b, len)
}

/// C08.K1a: the signed bytes of an appointment receipt are `user_signature || start_block (BE)`: they determine both
/// fields (the last four bytes are the start block, everything before is the signature).
#[kani::proof]
#[kani::unwind(10)]
fn c08_k1_appointment_receipt_layout() {
    let (b, len) = any_ascii::<4>();
    let sig = std::str::from_utf8(&b[..len]).unwrap().to_owned();
    let start: u32 = kani::any();
    let r = AppointmentReceipt::new(sig, start);
    let v = r.to_vec();
    assert!(v.len() == len + 4, "C08.layout: appointment receipt = signature bytes + 4");
    let mut i = 0;
    while i < len {
        assert!(v[i] == b[i], "C08.layout: appointment receipt starts with the user's signature");
        i += 1;
    }
    let be = start.to_be_bytes();
    assert!(v[len] == be[0] && v[len + 1] == be[1] && v[len + 2] == be[2] && v[len + 3] == be[3],
        "C08.layout: appointment receipt ends with the start block (big endian)");
    assert!(r.user_signature().len() == len && r.start_block() == start && r.signature().is_none(),
        "C08.layout: accessors return the fields");
    kani::cover!(len == 4, "reach");
    std::mem::forget(v);
    std::mem::forget(r);
}

/// C08.K1b / C16: the signed bytes of an appointment are `locator (16) || blob || to_self_delay (BE)`.
#[kani::proof]
#[kani::unwind(20)]
fn c08_k1_appointment_layout() {
    let l: [u8; 16] = kani::any();
    let blob: [u8; 3] = kani::any();
    let len: usize = kani::any();
    kani::assume(len <= 3);
    let d: u32 = kani::any();
    let a = Appointment::new(Locator::from_slice(&l).unwrap(), blob[..len].to_vec(), d);
    let v = a.to_vec();
    assert!(v.len() == 16 + len + 4, "C08.layout: appointment = 16 + blob + 4 bytes");
    let mut i = 0;
    while i < 16 {
        assert!(v[i] == l[i], "C08.layout: appointment starts with the locator");
        i += 1;
    }
    let mut i = 0;
    while i < len {
        assert!(v[16 + i] == blob[i], "C08.layout: then the blob");
        i += 1;
    }
    let be = d.to_be_bytes();
    assert!(v[16 + len] == be[0] && v[17 + len] == be[1] && v[18 + len] == be[2] && v[19 + len] == be[3],
        "C08.layout: then to_self_delay (big endian)");
    kani::cover!(len == 3, "reach");
    std::mem::forget(v);
    std::mem::forget(a);
}


/// The serialised user id of the harness universe: 33 bytes, tag 2, then the first raw byte of the key (the real
/// `PublicKey::serialize` is FFI even under `secp256k1_fuzz`).
fn userid_to_vec_model(u: &crate::UserId) -> Vec<u8> {
    let mut v = vec![0u8; 33];
    v[0] = 2;
    v[1] = unsafe { *(bitcoin::secp256k1::ffi::CPtr::as_c_ptr(&u.0) as *const u8) };
    v
}

/// C08.K1c: the signed bytes of a registration receipt are `user id (33) || available_slots || subscription_start ||
/// subscription_expiry` (big endian): the signature binds every returned field, each at its own position.
#[kani::proof]
#[kani::stub(crate::UserId::to_vec, userid_to_vec_model)]
#[kani::unwind(36)]
fn c08_k1_registration_receipt_layout() {
    let mut raw = [0u8; 64];
    raw[0] = kani::any();
    let user = crate::UserId(bitcoin::secp256k1::PublicKey::from(unsafe { bitcoin::secp256k1::ffi::PublicKey::from_array_unchecked(raw) }));
    let (slots, start, expiry): (u32, u32, u32) = (kani::any(), kani::any(), kani::any());
    let r = RegistrationReceipt::new(user, slots, start, expiry);
    let v = r.to_vec();
    assert!(v.len() == 33 + 12, "C08.layout: registration receipt = user id (33) + three u32");
    assert!(v[0] == 2 && v[1] == raw[0], "C08.layout: registration receipt starts with the user id");
    let (s, a, e) = (slots.to_be_bytes(), start.to_be_bytes(), expiry.to_be_bytes());
    assert!(v[33] == s[0] && v[34] == s[1] && v[35] == s[2] && v[36] == s[3], "C08.layout: then the available slots (big endian)");
    assert!(v[37] == a[0] && v[38] == a[1] && v[39] == a[2] && v[40] == a[3], "C08.layout: then the subscription start (big endian)");
    assert!(v[41] == e[0] && v[42] == e[1] && v[43] == e[2] && v[44] == e[3], "C08.layout: then the subscription expiry (big endian)");
    assert!(r.available_slots() == slots && r.subscription_start() == start && r.subscription_expiry() == expiry && r.signature().is_none(),
        "C08.layout: accessors return the fields");
    kani::cover!(slots != start && start != expiry, "reach");
    std::mem::forget(v);
    std::mem::forget(r);
}
