//! C19 — Kani harnesses for `TxIndex` (child module of teos/src/tx_index.rs under cfg(kani)).
//!
//! Instantiation: `TxIndex<K8, V8>` with 1-byte keys / values defined here (the generic source is the
//! same one the production instantiations `Locator/Transaction` and `Txid/BlockHash` use).
//! Shape (N = index size, D = disconnections before the step, operation) is concrete per harness;
//! block contents (key sets), the bootstrap height and the keys of the new block are symbolic.
//! Spec = the list of blocks of the active chain kept by the harness (`Spec`).
use super::*;
use crate::verif_stubs::{block_hash_model, hdr};

#[derive(Clone, Copy, PartialEq, Eq, Hash, Debug)]
pub(crate) struct K8(pub u8);
impl Key for K8 {
    fn from_txid(t: Txid) -> Self {
        use bitcoin::hashes::Hash;
        K8(t.to_byte_array()[0])
    }
}
#[derive(Clone, Copy, PartialEq, Eq, Debug)]
pub(crate) struct V8(pub u8);
impl Value for V8 {
    fn get_type() -> Type {
        Type::BlockHash
    }
    fn from_data(_d: Data) -> Self {
        V8(0)
    }
}

impl<K: Key + Copy, V: Value + Clone> TxIndex<K, V> {
    /// What `TxIndex::new` builds before its bootstrap loop (the loop itself needs `ValidatedBlock`s, i.e. PoW).
    pub(crate) fn verif_set_tip(&mut self, tip: u32) {
        self.tip = tip;
    }
    pub(crate) fn verif_empty(size: usize, tip: u32) -> Self {
        TxIndex {
            index: HashMap::new(),
            blocks: VecDeque::with_capacity(size),
            tx_in_block: HashMap::new(),
            tip,
            size,
        }
    }
}

const MAXB: usize = 6;

/// Active chain as the spec sees it: block ids (= header nonce = value tag) and key bitsets.
/// `base` = true height of `blocks[0]`.
struct Spec {
    ids: [u32; MAXB],
    bits: [u8; MAXB],
    len: usize,
    base: u32,
}

fn block_data<const NK: u8>(tag: u8, bits: u8) -> HashMap<K8, V8> {
    let mut m = HashMap::new();
    let mut i = 0;
    while i < NK {
        if bits & (1 << i) != 0 {
            m.insert(K8(i), V8(tag));
        }
        i += 1;
    }
    m
}

/// Any key set that does not collide with a block of the active window (txids are unique on a chain).
fn any_bits<const NK: u8>(s: &Spec, window: usize) -> u8 {
    let bits: u8 = kani::any();
    kani::assume(bits < (1 << NK));
    let lo = if s.len > window { s.len - window } else { 0 };
    let mut j = lo;
    while j < s.len {
        kani::assume(s.bits[j] & bits == 0);
        j += 1;
    }
    bits
}

fn check<const NK: u8>(idx: &TxIndex<K8, V8>, s: &Spec, size: usize, gone: &[u32]) {
    let lo = if s.len > size { s.len - size } else { 0 };
    // look-ups: exactly the keys of the last `size` blocks of the active chain, mapped to their block
    let mut i = 0;
    while i < NK {
        let got = idx.get(&K8(i)).map(|v| v.0);
        let mut expect: Option<u8> = None;
        let mut j = lo;
        while j < s.len {
            if s.bits[j] & (1 << i) != 0 {
                expect = Some(s.ids[j] as u8);
            }
            j += 1;
        }
        assert!(got == expect, "C19.lookup: get(k) is the block of the last N active blocks holding k");
        i += 1;
    }
    // heights of live blocks
    let mut j = lo;
    while j < s.len {
        let h = idx.get_height(&block_hash_model(&hdr(s.ids[j])));
        assert!(
            h == Some(s.base as usize + j),
            "C19.height: get_height(b) is the true height of live block b"
        );
        j += 1;
    }
    // evicted / disconnected blocks are unknown
    let mut g = 0;
    while g < gone.len() {
        assert!(
            idx.get_height(&block_hash_model(&hdr(gone[g]))).is_none(),
            "C19.gone: evicted or disconnected block is not reported"
        );
        g += 1;
    }
}

/// OP: 0 = connect a block with any (non-colliding) key set, 1 = disconnect the tip.
fn step<const N: usize, const D: usize, const OP: u8, const NK: u8>() {
    let tip0: u32 = kani::any();
    kani::assume(tip0 as usize >= N - 1 && tip0 < u32::MAX - 4);
    let mut idx: TxIndex<K8, V8> = TxIndex::verif_empty(N, tip0);
    let mut s = Spec { ids: [0; MAXB], bits: [0; MAXB], len: 0, base: tip0 - (N as u32 - 1) };
    // bootstrap: what `new` does with N chained blocks (oldest first)
    let mut n = 1u32;
    while (n as usize) <= N {
        let bits = any_bits::<NK>(&s, N);
        idx.update(hdr(n), &block_data::<NK>(n as u8, bits));
        s.ids[s.len] = n;
        s.bits[s.len] = bits;
        s.len += 1;
        n += 1;
    }
    let mut gone = [0u32; 2];
    let mut ngone = 0;
    // D disconnections of the tip
    let mut d = 0;
    while d < D {
        idx.remove_disconnected_block(&block_hash_model(&hdr(s.ids[s.len - 1])));
        s.len -= 1;
        d += 1;
    }
    if D > 0 {
        gone[ngone] = s.ids[s.len];
        ngone += 1;
    }
    if OP == 0 {
        let bits = any_bits::<NK>(&s, N);
        idx.update(hdr(10), &block_data::<NK>(10, bits));
        s.ids[s.len] = 10;
        s.bits[s.len] = bits;
        s.len += 1;
        if s.len > N {
            gone[ngone] = s.ids[s.len - N - 1];
            ngone += 1;
        }
    } else {
        kani::assume(s.len > 0);
        idx.remove_disconnected_block(&block_hash_model(&hdr(s.ids[s.len - 1])));
        s.len -= 1;
        gone[ngone] = s.ids[s.len];
        ngone += 1;
    }
    check::<NK>(&idx, &s, N, &gone[..ngone]);
    kani::cover!(true, "reach");
    std::mem::forget(idx);
}

macro_rules! step_harness {
    ($name:ident, $n:expr, $d:expr, $op:expr, $nk:expr) => {
        #[kani::proof]
        #[kani::stub(bitcoin::block::Header::block_hash, crate::verif_stubs::block_hash_model)]
        #[kani::unwind(7)]
        fn $name() {
            step::<$n, $d, $op, $nk>();
        }
    };
}

// N=1
step_harness!(c19_step_n1_d0_connect, 1, 0, 0, 2);
step_harness!(c19_step_n1_d0_disconnect, 1, 0, 1, 2);
step_harness!(c19_step_n1_d1_connect, 1, 1, 0, 2);
// N=2
step_harness!(c19_step_n2_d0_connect, 2, 0, 0, 2);
step_harness!(c19_step_n2_d0_disconnect, 2, 0, 1, 2);
step_harness!(c19_step_n2_d1_connect, 2, 1, 0, 2);
step_harness!(c19_step_n2_d1_disconnect, 2, 1, 1, 2);
step_harness!(c19_step_n2_d2_connect, 2, 2, 0, 2);
// N=3 (thorough), 3 keys
step_harness!(c19_step_n3_d0_connect, 3, 0, 0, 3);
step_harness!(c19_step_n3_d0_disconnect, 3, 0, 1, 3);
step_harness!(c19_step_n3_d1_connect, 3, 1, 0, 3);
step_harness!(c19_step_n3_d1_disconnect, 3, 1, 1, 3);
step_harness!(c19_step_n3_d2_connect, 3, 2, 0, 3);
step_harness!(c19_step_n3_d2_disconnect, 3, 2, 1, 3);
step_harness!(c19_step_n3_d3_connect, 3, 3, 0, 3);

/// K3: the production key types are what the property says: `Locator` = first 16 bytes of the id,
/// `Txid` = the id itself.
#[kani::proof]
#[kani::unwind(34)]
fn c19_production_keys() {
    use bitcoin::hashes::Hash;
    let b: [u8; 32] = kani::any();
    let t = Txid::from_byte_array(b);
    let l = <Locator as Key>::from_txid(t);
    let lv = l.to_vec();
    assert!(lv.len() == 16);
    let mut i = 0;
    while i < 16 {
        assert!(lv[i] == b[i], "C19.locator: locator is the first 16 bytes of the transaction id");
        i += 1;
    }
    assert!(<Txid as Key>::from_txid(t) == t);
    kani::cover!(true, "reach");
}
