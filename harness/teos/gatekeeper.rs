//! Kani harnesses (gatekeeper)
