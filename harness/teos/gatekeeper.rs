//! Kani harnesses for `Gatekeeper` (child module of teos/src/gatekeeper.rs under cfg(kani)).
//! Serves C09 (subscription heights), C07 (slot accounting), C06 (authentication / isolation), C08.K2.
//!
//! Pre-states are *arbitrary* `UserInfo` records, configuration values and heights (full u32), constrained only by
//! the representation invariant "memory copy == DB-model copy of every user". One operation is executed and the
//! post-condition is asserted, i.e. one inductive step from any reachable (and many unreachable) states.
use super::*;
use crate::responder::ConfirmationStatus;
use crate::verif_stubs::*;

pub(crate) fn any_info() -> UserInfo {
    UserInfo::new(kani::any(), kani::any(), kani::any())
}

/// A gatekeeper with `n` registered users (ids `user(0..n)`) and *concrete* placeholder contents. Symbolic contents are
/// written in place afterwards by `verif_havoc` (moving a struct that holds pointers *and* symbolic scalars makes CBMC
/// fall back to byte-level copies; measured: 15 s vs. out of memory).
pub(crate) fn concrete_gk(n: usize) -> Gatekeeper {
    let dbm = DBM::default();
    let mut users = HashMap::new();
    let mut i = 0;
    while i < n {
        let info = UserInfo::new(0, 0, 0);
        users.insert(user(i as u8), info);
        dbm.store_user(user(i as u8), &info).unwrap();
        i += 1;
    }
    Gatekeeper {
        last_known_block_height: AtomicU32::new(0),
        subscription_slots: 0,
        subscription_duration: 0,
        expiry_delta: 0,
        registered_users: Mutex::new(users),
        dbm: Arc::new(Mutex::new(dbm)),
    }
}

macro_rules! any_gk {
    ($gk:ident, $n:expr) => {
        let mut $gk = concrete_gk($n);
        $gk.verif_havoc($n);
    };
}
pub(crate) use any_gk;

impl Gatekeeper {
    /// Arbitrary user records (memory == database), configuration and height, written in place.
    pub(crate) fn verif_havoc(&mut self, n: usize) {
        self.subscription_slots = kani::any();
        self.subscription_duration = kani::any();
        self.expiry_delta = kani::any();
        self.last_known_block_height.store(kani::any(), Ordering::Release);
        let mut i = 0;
        while i < n {
            let info = any_info();
            *self.registered_users.lock().unwrap().get_mut(&user(i as u8)).unwrap() = info;
            self.dbm.lock().unwrap().update_user(user(i as u8), &info);
            i += 1;
        }
    }
    pub(crate) fn verif_mem(&self, u: UserId) -> Option<UserInfo> {
        self.registered_users.lock().unwrap().get(&u).cloned()
    }
    pub(crate) fn verif_db(&self, u: UserId) -> Option<UserInfo> {
        self.dbm.lock().unwrap().verif_user(u)
    }
    pub(crate) fn verif_set_user(&self, u: UserId, info: UserInfo) {
        *self.registered_users.lock().unwrap().get_mut(&u).unwrap() = info;
        self.dbm.lock().unwrap().update_user(u, &info);
    }
    pub(crate) fn verif_set_height(&self, h: u32) {
        self.last_known_block_height.store(h, Ordering::Release);
    }
    pub(crate) fn verif_dbm(&self) -> Arc<Mutex<DBM>> {
        self.dbm.clone()
    }
    pub(crate) fn verif_height(&self) -> u32 {
        self.last_known_block_height.load(Ordering::Acquire)
    }
    pub(crate) fn verif_cfg(&self) -> (u32, u32, u32) {
        (self.subscription_slots, self.subscription_duration, self.expiry_delta)
    }
}

/// Spec of the slot formula (decided for every length <= 2^24 by teos-common's c07_k1_slot_formula).
fn slots_spec(n: usize) -> u32 {
    core::cmp::max(1, ((n + 2047) / 2048) as u32)
}

// ------------------------------------------------------------------------------------------------ C09

/// K1: a subscription is usable exactly while height < expiry; the error carries the stored expiry.
#[kani::proof]
#[kani::unwind(6)]
fn c09_k1_expired_iff() {
    any_gk!(gk, 1);
    let info = gk.verif_mem(user(0)).unwrap();
    let h = gk.verif_height();
    let r = gk.has_subscription_expired(user(0));
    assert!(
        r == Ok((h >= info.subscription_expiry, info.subscription_expiry)),
        "C09.expired: expired iff height >= expiry, and the reported expiry is the stored one"
    );
    assert!(gk.has_subscription_expired(user(1)).is_err(), "C09.expired: unknown user is an error");
    assert!(gk.verif_mem(user(0)) == Some(info) && gk.verif_db(user(0)) == Some(info), "C09.expired: read-only");
    kani::cover!(h >= info.subscription_expiry, "reach-expired");
    kani::cover!(h < info.subscription_expiry, "reach-live");
    std::mem::forget(gk);
}

/// K2: the users selected for deletion at height h are exactly those with h >= expiry + grace (in N, no wrap).
#[kani::proof]
#[kani::unwind(6)]
fn c09_k2_outdated_iff() {
    any_gk!(gk, 2);
    let h: u32 = kani::any();
    let i0 = gk.verif_mem(user(0)).unwrap();
    let i1 = gk.verif_mem(user(1)).unwrap();
    let delta = gk.verif_cfg().2 as u64;
    let out = gk.get_outdated_users(h);
    let e0 = (h as u64) >= i0.subscription_expiry as u64 + delta;
    let e1 = (h as u64) >= i1.subscription_expiry as u64 + delta;
    assert!(out.iter().any(|u| uid(u) == 0) == e0, "C09.outdated: user is outdated iff height >= expiry + grace");
    assert!(out.iter().any(|u| uid(u) == 1) == e1, "C09.outdated: user is outdated iff height >= expiry + grace");
    assert!(out.len() == e0 as usize + e1 as usize, "C09.outdated: nobody else is selected");
    kani::cover!(e0 && !e1, "reach-one-outdated");
    std::mem::forget(gk);
}

/// K3: connecting a block deletes exactly the users `get_outdated_users` selects (K2 decides that selection for all
/// u32 values), from memory and from the database together with their appointments and trackers, leaves everybody else
/// bit-identical and records the height. The heights are concrete and sit on the boundary (expiry + grace == height
/// resp. height + 1): symbolic selection makes the result vector's length symbolic, which CBMC cannot hold in memory.
fn purge_step<const E0: bool, const E1: bool>() {
    let mut gk = concrete_gk(2);
    let h = 110u32;
    gk.expiry_delta = 10;
    gk.subscription_slots = kani::any();
    gk.subscription_duration = kani::any();
    gk.last_known_block_height.store(kani::any(), Ordering::Release);
    let i0 = UserInfo::new(kani::any(), kani::any(), if E0 { 100 } else { 101 });
    let i1 = UserInfo::new(kani::any(), kani::any(), if E1 { 100 } else { 101 });
    *gk.registered_users.lock().unwrap().get_mut(&user(0)).unwrap() = i0;
    *gk.registered_users.lock().unwrap().get_mut(&user(1)).unwrap() = i1;
    {
        let dbm = gk.dbm.lock().unwrap();
        dbm.update_user(user(0), &i0);
        dbm.update_user(user(1), &i1);
        dbm.verif_push_appointment(uuid(0), ext_appointment(0, user(0), 10));
        dbm.verif_push_appointment(uuid(1), ext_appointment(1, user(1), 10));
        dbm.verif_push_tracker(uuid(1), tracker(1, user(1), ConfirmationStatus::ConfirmedIn(7)));
    }
    let txdata: Vec<(usize, &bitcoin::Transaction)> = Vec::new();
    chain::Listen::filtered_block_connected(&gk, &crate::verif_stubs::hdr(1), &txdata, h);
    assert!(gk.verif_height() == h, "C09.purge: the connected height is recorded");
    let exp0 = if E0 { None } else { Some(i0) };
    let exp1 = if E1 { None } else { Some(i1) };
    assert!(gk.verif_mem(user(0)) == exp0 && gk.verif_mem(user(1)) == exp1,
        "C09.purge: exactly the users with height >= expiry + grace leave memory, the others are unchanged");
    assert!(gk.verif_db(user(0)) == exp0 && gk.verif_db(user(1)) == exp1,
        "C09.purge: exactly the users with height >= expiry + grace leave the database, the others are unchanged");
    let dbm = gk.dbm.lock().unwrap();
    assert!(dbm.appointment_exists(uuid(0)) == !E0 && dbm.appointment_exists(uuid(1)) == !E1,
        "C09.purge: a user's appointments are deleted with the user and only then");
    assert!(dbm.tracker_exists(uuid(1)) == !E1, "C09.purge: a user's trackers are deleted with the user and only then");
    kani::cover!(true, "reach");
    drop(dbm);
    std::mem::forget(gk);
}

macro_rules! purge_harness {
    ($name:ident, $a:expr, $b:expr) => {
        #[kani::proof]
        #[kani::stub(bitcoin::block::Header::block_hash, crate::verif_stubs::block_hash_model)]
        #[kani::unwind(6)]
        fn $name() {
            purge_step::<$a, $b>();
        }
    };
}
purge_harness!(c09_k3_purge_none, false, false);
purge_harness!(c09_k3_purge_first, true, false);
purge_harness!(c09_k3_purge_second, false, true);
purge_harness!(c09_k3_purge_both, true, true);

/// K3e: a tower without any registered user still follows the chain: the connected height is recorded (for every height and
/// configuration), so that the next registration is dated from the present and not from the last time somebody was around.
#[kani::proof]
#[kani::stub(bitcoin::block::Header::block_hash, crate::verif_stubs::block_hash_model)]
#[kani::unwind(6)]
fn c09_k3_block_connected_no_users() {
    let mut gk = concrete_gk(0);
    gk.expiry_delta = kani::any();
    gk.subscription_slots = kani::any();
    gk.subscription_duration = kani::any();
    gk.last_known_block_height.store(kani::any(), Ordering::Release);
    let h: u32 = kani::any();
    let txdata: Vec<(usize, &bitcoin::Transaction)> = Vec::new();
    chain::Listen::filtered_block_connected(&gk, &crate::verif_stubs::hdr(1), &txdata, h);
    assert!(gk.verif_height() == h, "C09.block: the connected height is recorded even when nobody is registered");
    // and a registration right afterwards starts now
    kani::assume(gk.subscription_slots >= 1);
    let r = gk.add_update_user(user(2));
    assert!(matches!(&r, Ok(rc) if rc.subscription_start() == h), "C09.register: a first registration starts at the tower's current height");
    kani::cover!(true, "reach");
    std::mem::forget(r);
    std::mem::forget(gk);
}

/// K4: a disconnection of the block at height h takes the gatekeeper back to h-1 and changes nothing else.
#[kani::proof]
#[kani::stub(bitcoin::block::Header::block_hash, crate::verif_stubs::block_hash_model)]
#[kani::unwind(6)]
fn c09_k4_disconnect_height() {
    any_gk!(gk, 1);
    let i0 = gk.verif_mem(user(0)).unwrap();
    let h: u32 = kani::any();
    kani::assume(h >= 1); // genesis is never disconnected
    chain::Listen::block_disconnected(&gk, &crate::verif_stubs::hdr(1), h);
    assert!(gk.verif_height() == h - 1, "C09.disconnect: height goes back to h-1");
    assert!(gk.verif_mem(user(0)) == Some(i0) && gk.verif_db(user(0)) == Some(i0), "C09.disconnect: users untouched");
    // and the comparison of K1 honours it
    let r = gk.has_subscription_expired(user(0));
    assert!(r == Ok((h - 1 >= i0.subscription_expiry, i0.subscription_expiry)), "C09.disconnect: expiry check uses h-1");
    kani::cover!(true, "reach");
    std::mem::forget(gk);
}

/// K5a: registration of a new user at height h: start = h, expiry = h + duration (saturating at u32::MAX like renewals),
/// slots = configured slots; memory == DB == receipt (also C08.K2, C07.K3).
#[kani::proof]
#[kani::unwind(6)]
fn c09_k5_register_new() {
    any_gk!(gk, 1);
    let i0 = gk.verif_mem(user(0)).unwrap();
    let h = gk.verif_height();
    let (slots, duration, _) = gk.verif_cfg();
    let r = gk.add_update_user(user(1));
    let receipt = match r {
        Ok(x) => x,
        Err(_) => {
            assert!(false, "C09.register: a first registration cannot hit the slot limit");
            return;
        }
    };
    let exp = core::cmp::min(h as u64 + duration as u64, u32::MAX as u64) as u32;
    let want = UserInfo::new(slots, h, exp);
    assert!(gk.verif_mem(user(1)) == Some(want), "C09.register: new user gets start=h, expiry=h+duration, configured slots (memory)");
    assert!(gk.verif_db(user(1)) == Some(want), "C09.register: new user gets start=h, expiry=h+duration, configured slots (database)");
    assert!(receipt.user_id() == user(1) && receipt.available_slots() == slots && receipt.subscription_start() == h
        && receipt.subscription_expiry() == exp, "C08.receipt: the registration receipt carries the persisted values");
    assert!(gk.verif_mem(user(0)) == Some(i0) && gk.verif_db(user(0)) == Some(i0), "C06.isolation: other users untouched");
    kani::cover!(true, "reach");
    std::mem::forget(gk);
}

/// K5b: renewal: expiry pushed back by one duration (saturating), slots topped up (checked); on MaxSlotsReached
/// nothing changes anywhere; memory == DB == receipt.
#[kani::proof]
#[kani::unwind(6)]
fn c09_k5_renew() {
    any_gk!(gk, 2);
    let i0 = gk.verif_mem(user(0)).unwrap();
    let i1 = gk.verif_mem(user(1)).unwrap();
    let (slots, duration, _) = gk.verif_cfg();
    let r = gk.add_update_user(user(0));
    let sum = i0.available_slots as u64 + slots as u64;
    match r {
        Ok(receipt) => {
            assert!(sum <= u32::MAX as u64, "C07.renew: renewal succeeds only if the slot count fits");
            let exp = core::cmp::min(i0.subscription_expiry as u64 + duration as u64, u32::MAX as u64) as u32;
            let want = UserInfo::new(sum as u32, i0.subscription_start, exp);
            assert!(gk.verif_mem(user(0)) == Some(want), "C09.renew: expiry += duration, slots += configured slots (memory)");
            assert!(gk.verif_db(user(0)) == Some(want), "C09.renew: expiry += duration, slots += configured slots (database)");
            assert!(receipt.user_id() == user(0) && receipt.available_slots() == want.available_slots
                && receipt.subscription_start() == want.subscription_start
                && receipt.subscription_expiry() == want.subscription_expiry,
                "C08.receipt: the registration receipt carries the persisted values");
        }
        Err(_) => {
            assert!(sum > u32::MAX as u64, "C07.renew: MaxSlotsReached only on overflow");
            assert!(gk.verif_mem(user(0)) == Some(i0), "C07.renew: a refused renewal changes nothing (memory)");
            assert!(gk.verif_db(user(0)) == Some(i0), "C07.renew: a refused renewal changes nothing (database)");
        }
    }
    assert!(gk.verif_mem(user(1)) == Some(i1) && gk.verif_db(user(1)) == Some(i1), "C06.isolation: other users untouched");
    kani::cover!(sum > u32::MAX as u64, "reach-refused");
    kani::cover!(sum <= u32::MAX as u64, "reach-renewed");
    std::mem::forget(gk);
}

// ------------------------------------------------------------------------------------------------ C07

/// K1 is in teos-common (slot formula). K2: add_update_appointment charges exactly the difference.
/// `old`: None = new appointment, Some(n) = replacement of a stored appointment with an n-byte blob.
fn add_update_appointment_step(has_old: bool) {
    any_gk!(gk, 2);
    let i0 = gk.verif_mem(user(0)).unwrap();
    let i1 = gk.verif_mem(user(1)).unwrap();
    let old_len: usize = kani::any();
    let new_len: usize = kani::any();
    kani::assume(old_len <= MAX_BLOB && new_len <= MAX_BLOB);
    if has_old {
        gk.dbm.lock().unwrap().verif_push_appointment(uuid(0), ext_appointment(0, user(0), old_len));
    }
    let so = if has_old { slots_spec(old_len) as i64 } else { 0 };
    let sn = slots_spec(new_len) as i64;
    // representation invariant: what the user was granted in total fits the counter (see DESIGN F14)
    kani::assume(i0.available_slots as i64 + so <= u32::MAX as i64);
    let appt = ext_appointment(0, user(0), new_len);
    let r = gk.add_update_appointment(user(0), uuid(0), &appt);
    let diff = sn - so;
    match r {
        Ok(s) => {
            assert!(diff <= i0.available_slots as i64, "C07.charge: accepted only if the balance stays non-negative");
            let want = (i0.available_slots as i64 - diff) as u32;
            assert!(s == want, "C07.charge: the balance told to the user is old balance - (slots(new) - slots(old))");
            let wi = UserInfo::new(want, i0.subscription_start, i0.subscription_expiry);
            assert!(gk.verif_mem(user(0)) == Some(wi), "C07.charge: memory holds the same balance");
            assert!(gk.verif_db(user(0)) == Some(wi), "C07.charge: the database holds the same balance");
        }
        Err(_) => {
            assert!(diff > i0.available_slots as i64, "C07.charge: refused only if slots are missing");
            assert!(gk.verif_mem(user(0)) == Some(i0) && gk.verif_db(user(0)) == Some(i0), "C07.charge: a refusal changes nothing");
        }
    }
    assert!(gk.verif_mem(user(1)) == Some(i1) && gk.verif_db(user(1)) == Some(i1), "C06.isolation: other users untouched");
    kani::cover!(!has_old || (r.is_ok() && diff < 0), "reach-shrink");
    kani::cover!(r.is_ok() && diff > 1, "reach-grow");
    kani::cover!(r.is_err(), "reach-refused");
    std::mem::forget(appt);
    std::mem::forget(gk);
}

#[kani::proof]
#[kani::unwind(6)]
fn c07_k2_charge_new() {
    add_update_appointment_step(false);
}

#[kani::proof]
#[kani::unwind(6)]
fn c07_k2_charge_update() {
    add_update_appointment_step(true);
}

/// K4: delete_appointments: with refund every deleted appointment gives exactly its slots back to its owner (memory and
/// DB), without refund no balance moves; the rows (and their trackers) are gone either way; bystanders untouched.
fn delete_step(refund: bool, n: usize) {
    any_gk!(gk, 2);
    let i0 = gk.verif_mem(user(0)).unwrap();
    let i1 = gk.verif_mem(user(1)).unwrap();
    let l0: usize = kani::any();
    let l1: usize = kani::any();
    let l2: usize = kani::any();
    kani::assume(l0 <= MAX_BLOB && l1 <= MAX_BLOB && l2 <= MAX_BLOB);
    // owner of the second deleted appointment is symbolic: same user or the other one
    let o1 = if kani::any() { user(0) } else { user(1) };
    {
        let dbm = gk.dbm.lock().unwrap();
        dbm.verif_push_appointment(uuid(0), ext_appointment(0, user(0), l0));
        dbm.verif_push_appointment(uuid(1), ext_appointment(1, o1, l1));
        dbm.verif_push_appointment(uuid(2), ext_appointment(2, user(1), l2)); // bystander row
        dbm.verif_push_tracker(uuid(0), tracker(0, user(0), ConfirmationStatus::ConfirmedIn(kani::any())));
    }
    let mut r0 = slots_spec(l0) as u64;
    let mut r1 = 0u64;
    if n == 2 {
        if o1 == user(0) {
            r0 += slots_spec(l1) as u64;
        } else {
            r1 += slots_spec(l1) as u64;
        }
    }
    // representation invariant: granted totals fit the counter
    kani::assume(i0.available_slots as u64 + r0 <= u32::MAX as u64);
    kani::assume(i1.available_slots as u64 + r1 <= u32::MAX as u64);
    let v = if n == 2 { vec![uuid(0), uuid(1)] } else { vec![uuid(0)] };
    gk.delete_appointments(v, refund);
    let (w0, w1) = if refund {
        (
            UserInfo::new(i0.available_slots + r0 as u32, i0.subscription_start, i0.subscription_expiry),
            UserInfo::new(i1.available_slots + r1 as u32, i1.subscription_start, i1.subscription_expiry),
        )
    } else {
        (i0, i1)
    };
    assert!(gk.verif_mem(user(0)) == Some(w0) && gk.verif_mem(user(1)) == Some(w1),
        "C07.refund: memory balance = old + slots of the refunded appointments (nothing without refund)");
    assert!(gk.verif_db(user(0)) == Some(w0) && gk.verif_db(user(1)) == Some(w1),
        "C07.refund: database balance = old + slots of the refunded appointments (nothing without refund)");
    let dbm = gk.dbm.lock().unwrap();
    assert!(!dbm.appointment_exists(uuid(0)) && !dbm.tracker_exists(uuid(0)), "C07.delete: the deleted appointment and its tracker are gone");
    assert!(dbm.appointment_exists(uuid(1)) == (n != 2), "C07.delete: exactly the listed appointments are deleted");
    assert!(dbm.appointment_exists(uuid(2)), "C07.delete: other appointments stay");
    kani::cover!(o1 == user(0), "reach-same-owner");
    kani::cover!(o1 == user(1), "reach-two-owners");
    drop(dbm);
    std::mem::forget(gk);
}

#[kani::proof]
#[kani::unwind(6)]
fn c07_k4_delete_refund_one() {
    delete_step(true, 1);
}
#[kani::proof]
#[kani::unwind(6)]
fn c07_k4_delete_refund_two() {
    delete_step(true, 2);
}
#[kani::proof]
#[kani::unwind(6)]
fn c07_k4_delete_norefund_one() {
    delete_step(false, 1);
}
#[kani::proof]
#[kani::unwind(6)]
fn c07_k4_delete_norefund_two() {
    delete_step(false, 2);
}

// ------------------------------------------------------------------------------------------------ C06

/// K1: authentication succeeds iff the signature recovers to a registered key; it never changes state.
/// `recover_pk` (zbase32 + SHA-256d + libsecp256k1) is replaced by a stub returning *any* result.
#[kani::proof]
#[kani::stub(teos_common::cryptography::recover_pk, crate::verif_stubs::recover_pk_any)]
#[kani::unwind(6)]
fn c06_k1_authenticate() {
    any_gk!(gk, 2);
    let i0 = gk.verif_mem(user(0)).unwrap();
    let i1 = gk.verif_mem(user(1)).unwrap();
    let r = gk.authenticate_user(&[1u8, 2, 3], "sig");
    let rec = unsafe { RECOVERED };
    match rec {
        Some(k) if k < 2 => assert!(r == Ok(user(k)), "C06.auth: a registered key authenticates as itself"),
        _ => assert!(r.is_err(), "C06.auth: failed recovery or unregistered key is refused"),
    }
    assert!(gk.verif_mem(user(0)) == Some(i0) && gk.verif_mem(user(1)) == Some(i1)
        && gk.verif_db(user(0)) == Some(i0) && gk.verif_db(user(1)) == Some(i1), "C06.auth: authentication changes nothing");
    kani::cover!(r.is_ok(), "reach-ok");
    kani::cover!(rec == Some(2), "reach-unregistered");
    kani::cover!(rec.is_none(), "reach-bad-signature");
    std::mem::forget(gk);
}
