//! C20 — Kani harnesses for `Config::{patch_with_options, verify, get_auth_method}` and `cli_config::Config` (child module
//! of teos/src/config.rs under cfg(kani)).
//!
//! Strings are concrete markers ("file:<field>" / "cli:<field>"): the code never inspects their contents, so a marker
//! ending up in the wrong field is what a precedence or copy/paste bug looks like. Numeric values and flags are symbolic.
//! Presence of the string options is concrete per harness (four patterns: all, none, even, odd — every field is seen
//! present and absent next to present and absent neighbours); presence of the numeric options is symbolic.
use super::*;

fn file_config() -> Config {
    Config {
        api_bind: "file:api_bind".into(),
        api_port: 0,
        rpc_bind: "file:rpc_bind".into(),
        rpc_port: 0,
        btc_network: "file:btc_network".into(),
        btc_rpc_user: "file:btc_rpc_user".into(),
        btc_rpc_cookie: "file:btc_rpc_cookie".into(),
        btc_rpc_password: "file:btc_rpc_password".into(),
        btc_rpc_connect: "file:btc_rpc_connect".into(),
        btc_rpc_port: 0,
        debug: false,
        deps_debug: false,
        overwrite_key: false,
        force_update: false,
        subscription_slots: 0,
        subscription_duration: 0,
        expiry_delta: 0,
        min_to_self_delay: 0,
        polling_delta: 0,
        internal_api_bind: "file:internal_api_bind".into(),
        internal_api_port: 0,
        tor_support: false,
        tor_control_port: 0,
        onion_hidden_service_port: 0,
    }
}

fn opt_str(present: bool, v: &str) -> Option<String> {
    if present {
        Some(v.to_owned())
    } else {
        None
    }
}

fn any_opt_u16() -> Option<u16> {
    if kani::any() {
        Some(kani::any())
    } else {
        None
    }
}

fn patch_step(pat: [bool; 7]) {
    let mut c = file_config();
    // numeric and boolean file values: symbolic, written in place
    c.api_port = kani::any();
    c.rpc_port = kani::any();
    c.btc_rpc_port = kani::any();
    c.tor_control_port = kani::any();
    c.onion_hidden_service_port = kani::any();
    c.debug = kani::any();
    c.deps_debug = kani::any();
    c.overwrite_key = kani::any();
    c.force_update = kani::any();
    c.tor_support = kani::any();
    c.subscription_slots = kani::any();
    c.subscription_duration = kani::any();
    c.expiry_delta = kani::any();
    c.min_to_self_delay = kani::any();
    c.polling_delta = kani::any();
    c.internal_api_port = kani::any();
    let f = (c.api_port, c.rpc_port, c.btc_rpc_port, c.tor_control_port, c.onion_hidden_service_port);
    let fb = (c.debug, c.deps_debug, c.overwrite_key, c.force_update, c.tor_support);
    let fo = (c.subscription_slots, c.subscription_duration, c.expiry_delta, c.min_to_self_delay, c.polling_delta, c.internal_api_port);
    let o_ports = (any_opt_u16(), any_opt_u16(), any_opt_u16(), any_opt_u16(), any_opt_u16());
    let ob: (bool, bool, bool, bool, bool) = (kani::any(), kani::any(), kani::any(), kani::any(), kani::any());
    let opt = Opt {
        api_bind: opt_str(pat[0], "cli:api_bind"),
        api_port: o_ports.0,
        rpc_bind: opt_str(pat[1], "cli:rpc_bind"),
        rpc_port: o_ports.1,
        btc_network: opt_str(pat[2], "cli:btc_network"),
        btc_rpc_user: opt_str(pat[3], "cli:btc_rpc_user"),
        btc_rpc_password: opt_str(pat[4], "cli:btc_rpc_password"),
        btc_rpc_cookie: opt_str(pat[5], "cli:btc_rpc_cookie"),
        btc_rpc_connect: opt_str(pat[6], "cli:btc_rpc_connect"),
        btc_rpc_port: o_ports.2,
        data_dir: "cli:data_dir".into(),
        debug: ob.0,
        deps_debug: ob.1,
        overwrite_key: ob.2,
        tor_support: ob.4,
        force_update: ob.3,
        tor_control_port: o_ports.3,
        onion_hidden_service_port: o_ports.4,
    };
    c.patch_with_options(opt);
    let want = |p: bool, name: &str, got: &str| -> bool {
        let (pre, rest) = got.split_at(if p { 4 } else { 5 });
        pre == if p { "cli:" } else { "file:" } && rest == name
    };
    assert!(want(pat[0], "api_bind", &c.api_bind), "C20.precedence: api_bind = command line value if given, else file value");
    assert!(want(pat[1], "rpc_bind", &c.rpc_bind), "C20.precedence: rpc_bind = command line value if given, else file value");
    assert!(want(pat[2], "btc_network", &c.btc_network), "C20.precedence: btc_network = command line value if given, else file value");
    assert!(want(pat[3], "btc_rpc_user", &c.btc_rpc_user), "C20.precedence: btc_rpc_user = command line value if given, else file value");
    assert!(want(pat[4], "btc_rpc_password", &c.btc_rpc_password), "C20.precedence: btc_rpc_password = command line value if given, else file value");
    assert!(want(pat[5], "btc_rpc_cookie", &c.btc_rpc_cookie), "C20.precedence: btc_rpc_cookie = command line value if given, else file value");
    assert!(want(pat[6], "btc_rpc_connect", &c.btc_rpc_connect), "C20.precedence: btc_rpc_connect = command line value if given, else file value");
    assert!(c.internal_api_bind == "file:internal_api_bind", "C20.precedence: options without a command line switch keep the file value");
    assert!(c.api_port == o_ports.0.unwrap_or(f.0), "C20.precedence: api_port");
    assert!(c.rpc_port == o_ports.1.unwrap_or(f.1), "C20.precedence: rpc_port");
    assert!(c.btc_rpc_port == o_ports.2.unwrap_or(f.2), "C20.precedence: btc_rpc_port");
    assert!(c.tor_control_port == o_ports.3.unwrap_or(f.3), "C20.precedence: tor_control_port");
    assert!(c.onion_hidden_service_port == o_ports.4.unwrap_or(f.4), "C20.precedence: onion_hidden_service_port");
    assert!(c.debug == (fb.0 || ob.0) && c.deps_debug == (fb.1 || ob.1) && c.tor_support == (fb.4 || ob.4),
        "C20.flags: debug / deps_debug / tor_support are on if set in the file or on the command line");
    assert!(c.overwrite_key == ob.2 && c.force_update == ob.3,
        "C20.oneshot: overwrite_key and force_update take effect only when given on the command line");
    assert!((c.subscription_slots, c.subscription_duration, c.expiry_delta, c.min_to_self_delay, c.polling_delta, c.internal_api_port) == fo,
        "C20.precedence: settings without a command line switch keep the file value");
    kani::cover!(fb.2 && !ob.2, "reach-file-overwrite-key-ignored");
    std::mem::forget(c);
}

macro_rules! patch_harness {
    ($name:ident, $pat:expr) => {
        #[kani::proof]
        #[kani::unwind(34)]
        fn $name() {
            patch_step($pat);
        }
    };
}
patch_harness!(c20_patch_all_present, [true; 7]);
patch_harness!(c20_patch_none_present, [false; 7]);
patch_harness!(c20_patch_even_present, [true, false, true, false, true, false, true]);
patch_harness!(c20_patch_odd_present, [false, true, false, true, false, true, false]);

/// K2/K3: verify() for all eight combinations of the three credential fields (empty / non-empty), one network name per
/// harness, any port: Ok <=> exactly one authentication method and a known network; the port is kept if non-zero, else the
/// network's default; the network name is normalised.
fn verify_step(network: &str, known: Option<(&str, u16)>) {
    let port: u16 = kani::any();
    let mut k = 0u8;
    while k < 8 {
        let (u, p, ck) = (k & 1 != 0, k & 2 != 0, k & 4 != 0);
        let mut c = file_config();
        c.btc_network = network.into();
        c.btc_rpc_user = if u { "u".into() } else { String::new() };
        c.btc_rpc_password = if p { "p".into() } else { String::new() };
        c.btc_rpc_cookie = if ck { "c".into() } else { String::new() };
        c.btc_rpc_port = port;
        let one_method = (u && p && !ck) || (!u && !p && ck);
        let m = c.get_auth_method();
        assert!((m == AuthMethod::UserPass) == (u && p && !ck) && (m == AuthMethod::CookieFile) == (!u && !p && ck)
            && (m == AuthMethod::Invalid) == (!u && !p && !ck), "C20.auth: exactly one bitcoind authentication method is recognised as such");
        let r = c.verify();
        match known {
            Some((norm, default_port)) if one_method => {
                assert!(r.is_ok(), "C20.verify: one authentication method and a known network are accepted");
                assert!(c.btc_network == norm, "C20.verify: the network name is normalised to bitcoind's");
                assert!(c.btc_rpc_port == if port != 0 { port } else { default_port },
                    "C20.verify: the RPC port is the explicit one, else the network's default");
            }
            _ => assert!(r.is_err(), "C20.verify: no or several authentication methods, or an unknown network, are refused"),
        }
        std::mem::forget(c);
        std::mem::forget(r);
        k += 1;
    }
    kani::cover!(port == 0, "reach-default-port");
}

macro_rules! verify_harness {
    ($name:ident, $net:expr, $known:expr) => {
        #[kani::proof]
        #[kani::stub(alloc::fmt::format, crate::verif_stubs::format_model)]
        #[kani::unwind(12)]
        fn $name() {
            verify_step($net, $known);
        }
    };
}
verify_harness!(c20_verify_mainnet, "mainnet", Some(("main", 8332)));
verify_harness!(c20_verify_main, "main", Some(("main", 8332)));
verify_harness!(c20_verify_testnet, "testnet", Some(("test", 18332)));
verify_harness!(c20_verify_test, "test", Some(("test", 18332)));
verify_harness!(c20_verify_regtest, "regtest", Some(("regtest", 18443)));
verify_harness!(c20_verify_signet, "signet", Some(("signet", 38332)));
verify_harness!(c20_verify_bogus, "bogus", None);
verify_harness!(c20_verify_empty, "", None);

/// K4: the CLI's own two-field configuration.
#[kani::proof]
#[kani::unwind(34)]
fn c20_cli_config_patch() {
    use crate::cli_config;
    let present: bool = kani::any();
    let fp: u16 = kani::any();
    let op = any_opt_u16();
    let mut c = cli_config::Config { rpc_bind: "file:rpc_bind".into(), rpc_port: 0 };
    c.rpc_port = fp;
    let o = cli_config::Opt {
        rpc_bind: if present { Some("cli:rpc_bind".into()) } else { None },
        rpc_port: op,
        data_dir: "d".into(),
        command: cli_config::Command::GetTowerInfo,
    };
    c.patch_with_options(o);
    assert!(c.rpc_bind == if present { "cli:rpc_bind" } else { "file:rpc_bind" }, "C20.precedence: teos-cli rpc_bind");
    assert!(c.rpc_port == op.unwrap_or(fp), "C20.precedence: teos-cli rpc_port");
    kani::cover!(present, "reach");
    std::mem::forget(c);
}
