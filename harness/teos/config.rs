//! Kani harnesses (config)
