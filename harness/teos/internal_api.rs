//! Kani harnesses (internal_api)
