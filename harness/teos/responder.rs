//! Kani harnesses (responder)
