//! Kani harnesses for `Responder` (child module of teos/src/responder.rs under cfg(kani)). Serves C01, C02, C04, C11.
use super::*;
use crate::carrier::verif_harness::expected_status;
use crate::gatekeeper::verif_harness::concrete_gk;
use crate::gatekeeper::UserInfo;
use crate::verif_bitcoind as node;
use crate::verif_bitcoind::Outcome;
use crate::verif_collections::HashMap;
use crate::verif_stubs::*;

/// A responder over: the model database (with `user(0)`, `user(1)` registered), a carrier on the node model, and a tx
/// index of size 2 holding two blocks (ids 1, 2), where block 2 contains the transaction `in_index` if given.
/// Everything is built from concrete values; `havoc_responder` then writes the symbolic scalars in place (see
/// `concrete_gk` for why).
pub(crate) fn concrete_responder(in_index: Option<&Transaction>) -> Responder {
    let mut gk = Arc::new(concrete_gk(2));
    Arc::get_mut(&mut gk).unwrap().verif_havoc(2);
    let dbm = gk.verif_dbm();
    let cli = Arc::new(crate::verif_bitcoind::Client::model());
    let reach = Arc::new((Mutex::new(true), std::sync::Condvar::new()));
    let carrier = Carrier::new(cli, reach, 0);
    let mut idx: TxIndex<Txid, BlockHash> = TxIndex::verif_empty(2, 10);
    let empty: HashMap<Txid, BlockHash> = HashMap::new();
    idx.update(hdr(1), &empty);
    let mut m: HashMap<Txid, BlockHash> = HashMap::new();
    if let Some(t) = in_index {
        m.insert(txid_model(t), block_hash_model(&hdr(2)));
    }
    idx.update(hdr(2), &m);
    Responder {
        tx_index: Mutex::new(idx),
        carrier: Mutex::new(carrier),
        gatekeeper: gk,
        dbm,
        reorged_trackers: Mutex::new(HashSet::new()),
    }
}

impl Responder {
    pub(crate) fn verif_gatekeeper(&self) -> Arc<Gatekeeper> {
        self.gatekeeper.clone()
    }
    pub(crate) fn verif_dbm(&self) -> Arc<Mutex<DBM>> {
        self.dbm.clone()
    }
    pub(crate) fn verif_set_carrier_height(&self, h: u32) {
        self.carrier.lock().unwrap().update_height(h);
    }
}

/// Arbitrary tip height of the tx index (returned) and arbitrary carrier height, written in place.
pub(crate) fn havoc_responder(r: &Responder) -> u32 {
    let tip: u32 = kani::any();
    kani::assume(tip >= 1 && tip < u32::MAX - 4);
    r.tx_index.lock().unwrap().verif_set_tip(tip);
    r.carrier.lock().unwrap().update_height(kani::any());
    tip
}

/// C01.P3 / C02: handle_breach decision tree and bookkeeping.
#[kani::proof]
#[kani::stub(bitcoin::Transaction::compute_txid, crate::verif_stubs::txid_model)]
#[kani::stub(bitcoin::block::Header::block_hash, crate::verif_stubs::block_hash_model)]
#[kani::stub(Carrier::hang_until_bitcoind_reachable, Carrier::hang_model)]
#[kani::unwind(6)]
fn c01_p3_handle_breach_in_index() {
    handle_breach_step(true);
}

#[kani::proof]
#[kani::stub(bitcoin::Transaction::compute_txid, crate::verif_stubs::txid_model)]
#[kani::stub(bitcoin::block::Header::block_hash, crate::verif_stubs::block_hash_model)]
#[kani::stub(Carrier::hang_until_bitcoind_reachable, Carrier::hang_model)]
#[kani::unwind(6)]
fn c01_p3_handle_breach_not_in_index() {
    handle_breach_step(false);
}

fn handle_breach_step(confirmed: bool) {
    let dispute = tx(1);
    let penalty = tx(2);
    let r = concrete_responder(if confirmed { Some(&penalty) } else { None });
    let tip = havoc_responder(&r);
    let ch = r.carrier.lock().unwrap().block_height();
    r.dbm.lock().unwrap().verif_push_appointment(uuid(0), ext_appointment(0, user(0), 10));
    let w0 = r.dbm.lock().unwrap().verif_writes();
    let st = r.handle_breach(uuid(0), Breach::new(dispute.clone(), penalty.clone()), user(0));
    let (n_sent, n_q, last) = unsafe { (node::N_SENT, node::N_QUERIED, node::LAST_OUTCOME) };
    assert!(n_q <= 1 && (n_q == 0 || unsafe { node::QUERIED[0] } == Some(txid_model(&penalty))),
        "C02: the only thing the node is asked about is the penalty (a dispute in the node's mempool justifies no shortcut)");
    if confirmed {
        assert!(st == ConfirmationStatus::ConfirmedIn(tip), "C01.respond: a penalty found in the recent-block index is ConfirmedIn(its block's height)");
        assert!(n_sent == 0 && n_q == 0, "C02: nothing is sent for a penalty that is already confirmed");
    } else if n_sent == 0 {
        assert!(n_q == 1 && last == Some(Outcome::Ok), "C01.respond: the penalty is only left unsent if the node already has it in its mempool");
        assert!(st == ConfirmationStatus::InMempoolSince(ch), "C01.respond: already in mempool => InMempoolSince(carrier height)");
    } else {
        assert!(n_sent == 1 && unsafe { node::SENT[0] } == Some(txid_model(&penalty)), "C01.respond: the penalty (and nothing else) is submitted, once");
        assert!(st == expected_status(last.unwrap(), ch), "C01.respond: the status is the node's verdict");
    }
    let dbm = r.dbm.lock().unwrap();
    if st.accepted() {
        let t = dbm.verif_tracker_row(uuid(0));
        assert!(t.is_some(), "C01.respond: an accepted response is recorded as a tracker");
        let t = t.unwrap();
        assert!(t.dispute == 1 && t.penalty == 2 && t.status == st && uid(&t.user_id) == 0,
            "C01.respond: the tracker holds exactly that dispute, penalty, status and owner");
    } else {
        assert!(!dbm.tracker_exists(uuid(0)), "C02: no tracker (no dispute_responded) without the node having the penalty");
        assert!(dbm.verif_writes() == w0, "C01.respond: a refused response writes nothing");
    }
    assert!(dbm.appointment_exists(uuid(0)), "C01.respond: handle_breach itself never drops the appointment");
    kani::cover!(confirmed || n_sent == 0, "reach-in-mempool");
    kani::cover!(confirmed || (n_sent == 1 && st.accepted()), "reach-sent-accepted");
    kani::cover!(confirmed || (n_sent == 1 && !st.accepted()), "reach-sent-rejected");
    drop(dbm);
    std::mem::forget(r);
}

// ------------------------------------------------------------------------------------------------ C04

fn any_status() -> ConfirmationStatus {
    if kani::any() {
        ConfirmationStatus::ConfirmedIn(kani::any())
    } else {
        ConfirmationStatus::InMempoolSince(kani::any())
    }
}

/// Adds appointment `i` (owner user(i % 2)) and its tracker with the given status to the model database.
fn push_tracker(r: &Responder, i: u8, st: ConfirmationStatus) {
    let dbm = r.dbm.lock().unwrap();
    dbm.verif_push_appointment(uuid(i), ext_appointment(i, user(i % 2), 10));
    dbm.verif_push_tracker(uuid(i), tracker(i, user(i % 2), st));
}

fn penalty_txid(i: u8) -> Txid {
    txid_model(&tx(200 + i as u32))
}
fn dispute_txid(i: u8) -> Txid {
    txid_model(&tx(100 + i as u32))
}

/// C04.P1: check_confirmations at an arbitrary height over a tracker with arbitrary recorded height; the *shape* (penalty
/// in the connected block or not, tracker marked reorged or not, recorded as confirmed or as unconfirmed) is concrete
/// per harness (8 shapes): symbolic enum discriminants and conditional set insertions are what make CBMC run out of
/// memory here, symbolic scalars are cheap. A second, unconfirmed tracker with arbitrary height stands by.
fn check_confirmations_step<const IN_BLOCK: bool, const REORGED: bool, const CONFIRMED: bool>() {
    let r = concrete_responder(None);
    havoc_responder(&r);
    let cur: u32 = kani::any();
    let h: u32 = kani::any();
    let h1: u32 = kani::any();
    let st = if CONFIRMED { ConfirmationStatus::ConfirmedIn(h) } else { ConfirmationStatus::InMempoolSince(h) };
    let st1 = ConfirmationStatus::InMempoolSince(h1);
    push_tracker(&r, 0, st);
    push_tracker(&r, 1, st1);
    let mut txids: HashSet<Txid> = HashSet::new();
    txids.insert(txid_model(&tx(77))); // an unrelated transaction of the block
    if IN_BLOCK {
        txids.insert(penalty_txid(0));
    }
    if REORGED {
        r.reorged_trackers.lock().unwrap().insert(uuid(0));
    }
    // representation invariant: a confirmed tracker that is not marked reorged was confirmed below the block being
    // connected (block_disconnected marks every tracker confirmed at a disconnected height)
    kani::assume(!CONFIRMED || REORGED || h < cur);
    let completed = r.check_confirmations(txids, cur);
    let dbm = r.dbm.lock().unwrap();
    let re = r.reorged_trackers.lock().unwrap();
    let now = dbm.verif_tracker_row(uuid(0)).map(|t| t.status);
    let n = completed.as_ref().map_or(0, |v| v.len());
    let c0 = completed.as_ref().map_or(false, |v| v.iter().any(|u| *u == uuid(0)));
    let c1 = completed.as_ref().map_or(false, |v| v.iter().any(|u| *u == uuid(1)));
    if IN_BLOCK {
        assert!(now == Some(ConfirmationStatus::ConfirmedIn(cur)), "C04.confirm: a penalty seen in the connected block is recorded as confirmed at that height");
        assert!(!re.contains(&uuid(0)), "C04.confirm: a re-confirmed tracker is no longer treated as reorged");
        assert!(!c0, "C04.complete: a tracker confirmed just now is not complete");
    } else {
        assert!(now == Some(st), "C04.confirm: the recorded status only changes when the penalty is seen in a block");
        assert!(re.contains(&uuid(0)) == REORGED, "C04.confirm: reorged marks are kept until re-confirmation or re-submission");
        let deep = CONFIRMED && !REORGED && cur - h == 100;
        assert!(c0 == deep, "C04.complete: a tracker completes when, and only when, its penalty is buried exactly 100 blocks deep on the active chain");
    }
    assert!(!c1, "C04.complete: an unconfirmed tracker never completes");
    assert!(dbm.verif_tracker_row(uuid(1)).map(|t| t.status) == Some(st1), "C04.confirm: other trackers keep their status");
    assert!(n == c0 as usize + c1 as usize, "C04.complete: nothing else is reported complete");
    assert!(completed.is_none() == (n == 0), "C04.complete: None iff nothing completed");
    assert!(dbm.appointment_exists(uuid(0)) && dbm.appointment_exists(uuid(1)), "C04.confirm: check_confirmations deletes nothing itself");
    assert!(unsafe { node::N_SENT == 0 && node::N_QUERIED == 0 }, "C02: counting confirmations never talks to the node");
    kani::cover!(IN_BLOCK || REORGED || !CONFIRMED || c0, "reach-completed");
    drop(re);
    drop(dbm);
    std::mem::forget(completed);
    std::mem::forget(r);
}

macro_rules! cc_harness {
    ($name:ident, $a:expr, $b:expr, $c:expr) => {
        #[kani::proof]
        #[kani::stub(bitcoin::Transaction::compute_txid, crate::verif_stubs::txid_model)]
        #[kani::stub(bitcoin::block::Header::block_hash, crate::verif_stubs::block_hash_model)]
        #[kani::stub(Carrier::hang_until_bitcoind_reachable, Carrier::hang_model)]
        #[kani::unwind(6)]
        fn $name() {
            check_confirmations_step::<$a, $b, $c>();
        }
    };
}
cc_harness!(c04_p1_cc_inblock_reorged_confirmed, true, true, true);
cc_harness!(c04_p1_cc_inblock_reorged_mempool, true, true, false);
cc_harness!(c04_p1_cc_inblock_fresh_confirmed, true, false, true);
cc_harness!(c04_p1_cc_inblock_fresh_mempool, true, false, false);
cc_harness!(c04_p1_cc_absent_reorged_confirmed, false, true, true);
cc_harness!(c04_p1_cc_absent_reorged_mempool, false, true, false);
cc_harness!(c04_p1_cc_absent_fresh_confirmed, false, false, true);
cc_harness!(c04_p1_cc_absent_fresh_mempool, false, false, false);

/// C04.P2: block_disconnected(height) for an arbitrary height: exactly the trackers confirmed at that height join the
/// reorged set (earlier marks are kept); the disconnected block leaves the recent-block index; the carrier follows the
/// height; no status changes; nothing is sent. Shapes: tracker 0 confirmed at the disconnected height or at another
/// height or unconfirmed; tracker 1 is a bystander that is / is not already marked.
fn block_disconnected_step<const K0: u8, const PRE: bool>() {
    let p = tx(200);
    let r = concrete_responder(Some(&p));
    havoc_responder(&r);
    let height: u32 = kani::any();
    let other: u32 = kani::any();
    kani::assume(other != height);
    let st0 = match K0 {
        0 => ConfirmationStatus::ConfirmedIn(height),
        1 => ConfirmationStatus::ConfirmedIn(other),
        _ => ConfirmationStatus::InMempoolSince(height),
    };
    let st1 = ConfirmationStatus::ConfirmedIn(other);
    push_tracker(&r, 0, st0);
    push_tracker(&r, 1, st1);
    if PRE {
        r.reorged_trackers.lock().unwrap().insert(uuid(1));
    }
    chain::Listen::block_disconnected(&r, &hdr(2), height);
    let re = r.reorged_trackers.lock().unwrap();
    assert!(re.contains(&uuid(0)) == (K0 == 0),
        "C04.reorg: a tracker is marked for re-submission iff its penalty was confirmed in the disconnected block");
    assert!(re.contains(&uuid(1)) == PRE, "C04.reorg: earlier marks are kept, other trackers are not marked");
    let idx = r.tx_index.lock().unwrap();
    assert!(idx.get(&penalty_txid(0)).is_none(), "C19/C04.reorg: transactions of the disconnected block leave the index");
    assert!(idx.get_height(&block_hash_model(&hdr(2))).is_none(), "C19/C04.reorg: the disconnected block leaves the index");
    assert!(r.carrier.lock().unwrap().block_height() == height, "C04.reorg: the carrier follows the chain event");
    let dbm = r.dbm.lock().unwrap();
    assert!(dbm.verif_tracker_row(uuid(0)).map(|t| t.status) == Some(st0) && dbm.verif_tracker_row(uuid(1)).map(|t| t.status) == Some(st1),
        "C04.reorg: a disconnection changes no recorded status");
    assert!(unsafe { node::N_SENT == 0 }, "C02: nothing is sent on a disconnection");
    kani::cover!(true, "reach");
    drop(dbm);
    drop(idx);
    drop(re);
    std::mem::forget(r);
}

macro_rules! bd_harness {
    ($name:ident, $k:expr, $pre:expr) => {
        #[kani::proof]
        #[kani::stub(bitcoin::Transaction::compute_txid, crate::verif_stubs::txid_model)]
        #[kani::stub(bitcoin::block::Header::block_hash, crate::verif_stubs::block_hash_model)]
        #[kani::stub(Carrier::hang_until_bitcoind_reachable, Carrier::hang_model)]
        #[kani::unwind(6)]
        fn $name() {
            block_disconnected_step::<$k, $pre>();
        }
    };
}
bd_harness!(c04_p2_disconnect_confirmed_here, 0, false);
bd_harness!(c04_p2_disconnect_confirmed_elsewhere, 1, true);
bd_harness!(c04_p2_disconnect_unconfirmed, 2, false);

/// C04.P3 / C02.P2: handle_reorged_txs(height) for one reorged tracker (plus an untouched bystander): dispute first,
/// penalty only if the dispute was not rejected; not rejected => InMempoolSince(height); rejected => listed.
#[kani::proof]
#[kani::stub(bitcoin::Transaction::compute_txid, crate::verif_stubs::txid_model)]
#[kani::stub(bitcoin::block::Header::block_hash, crate::verif_stubs::block_hash_model)]
#[kani::stub(Carrier::hang_until_bitcoind_reachable, Carrier::hang_model)]
#[kani::stub(Carrier::send_transaction, Carrier::send_transaction_contract)]
#[kani::unwind(6)]
fn c04_p3_handle_reorged() {
    let r = concrete_responder(None);
    havoc_responder(&r);
    let height: u32 = kani::any();
    let st0 = ConfirmationStatus::ConfirmedIn(kani::any());
    let st1 = any_status();
    push_tracker(&r, 0, st0);
    push_tracker(&r, 1, st1);
    r.reorged_trackers.lock().unwrap().insert(uuid(0));
    let rejected = r.handle_reorged_txs(height);
    let (n_sent, o) = unsafe { (node::N_SENT, node::SEND_OUTCOMES) };
    assert!(r.reorged_trackers.lock().unwrap().is_empty(), "C04.resubmit: the reorged set is consumed");
    assert!(n_sent >= 1 && unsafe { node::SENT[0] } == Some(dispute_txid(0)), "C04.resubmit: the dispute transaction is re-announced first");
    let d_rej = matches!(expected_status(o[0].unwrap(), 0), ConfirmationStatus::Rejected(_));
    let is_rej = rejected.as_ref().map_or(false, |v| v.contains(&uuid(0)));
    let dbm = r.dbm.lock().unwrap();
    if d_rej {
        assert!(n_sent == 1, "C02: the penalty is not sent when the dispute is refused");
        assert!(is_rej, "C04.resubmit: a tracker whose dispute is refused is reported for deletion");
    } else {
        assert!(n_sent == 2 && unsafe { node::SENT[1] } == Some(penalty_txid(0)), "C04.resubmit: then the penalty is re-submitted");
        let p_rej = matches!(expected_status(o[1].unwrap(), 0), ConfirmationStatus::Rejected(_));
        assert!(is_rej == p_rej, "C04.resubmit: reported for deletion iff the node refuses the penalty");
        if !p_rej {
            assert!(dbm.verif_tracker_status(uuid(0)) == Some(ConfirmationStatus::InMempoolSince(height)),
                "C04.resubmit: a re-submitted penalty is unconfirmed since the current height");
        }
    }
    assert!(rejected.as_ref().map_or(true, |v| v.len() == 1 && is_rej), "C04.resubmit: nobody else is reported");
    assert!(dbm.verif_tracker_status(uuid(1)) == Some(st1), "C04.resubmit: trackers that were not reorged are untouched");
    assert!(dbm.tracker_exists(uuid(0)), "C04.resubmit: deletion is left to the caller");
    kani::cover!(d_rej, "reach-dispute-rejected");
    kani::cover!(!d_rej && !is_rej, "reach-resubmitted");
    drop(dbm);
    std::mem::forget(rejected);
    std::mem::forget(r);
}

/// C04.P4a: rebroadcast_stale_txs(height) asks the database for exactly the trackers unconfirmed since `height - 6` or
/// earlier, for every height (the selection rule `<=` itself is SQL, i.e. model).
#[kani::proof]
#[kani::stub(bitcoin::Transaction::compute_txid, crate::verif_stubs::txid_model)]
#[kani::stub(bitcoin::block::Header::block_hash, crate::verif_stubs::block_hash_model)]
#[kani::stub(Carrier::hang_until_bitcoind_reachable, Carrier::hang_model)]
#[kani::unwind(6)]
fn c04_p4_rebroadcast_threshold() {
    let r = concrete_responder(None);
    havoc_responder(&r);
    let height: u32 = kani::any();
    kani::assume(height >= 6); // see known finding F16 for heights below 6
    let rejected = r.rebroadcast_stale_txs(height);
    assert!(rejected.is_none(), "C04.rebroadcast: nothing to report without trackers");
    assert!(unsafe { crate::dbm::LAST_STATUS_QUERY } == Some(ConfirmationStatus::InMempoolSince(height - 6)),
        "C04.rebroadcast: the stale threshold is 6 blocks");
    assert!(unsafe { node::N_SENT == 0 }, "C02: nothing is sent without trackers");
    kani::cover!(height == 6, "reach-boundary");
    std::mem::forget(r);
}

/// C04.P4b: loop body of rebroadcast_stale_txs at concrete heights on both sides of the threshold (H0 = height the
/// penalty has been unconfirmed since; the call is at height 16): the stale penalty (and only it) is re-submitted, the
/// node's verdict (symbolic) is recorded, refused ones are reported; confirmed trackers are never re-submitted.
fn rebroadcast_step<const H0: u32, const BYSTANDER: bool, const OUT: i32>() {
    let r = concrete_responder(None);
    let height = 16u32;
    let st0 = ConfirmationStatus::InMempoolSince(H0);
    let st1 = ConfirmationStatus::ConfirmedIn(3);
    push_tracker(&r, 0, st0);
    if BYSTANDER {
        push_tracker(&r, 1, st1);
    }
    r.carrier.lock().unwrap().update_height(height);
    // the only verdict rebroadcast cannot record is "already in chain" (known finding F7): ruled out here, decided by
    // the witness harness c04_p4_rebroadcast_f7
    // (the verdict is concrete per harness: OUT = 0 accepted, otherwise that RPC error code; the mapping of *all* node
    // replies to verdicts is the carrier contract c12_k1; symbolic verdicts make this loop run out of memory)
    let o: Outcome = if OUT == 0 { Outcome::Ok } else { Outcome::Rpc(OUT) };
    unsafe { node::SCRIPT = Some(o) };
    let rejected = r.rebroadcast_stale_txs(height);
    let n_sent = unsafe { node::N_SENT };
    let stale = H0 + 6 <= height;
    let dbm = r.dbm.lock().unwrap();
    let now0 = dbm.verif_tracker_row(uuid(0)).map(|t| t.status);
    if stale {
        assert!(n_sent == 1, "C04.rebroadcast: a penalty unconfirmed for 6 blocks is re-submitted (only it)");
        assert!(unsafe { node::SENT[0] }.map(|t| AsRef::<[u8; 32]>::as_ref(&t)[0]) == Some(200), "C04.rebroadcast: what is re-submitted is the penalty");
        let is_rej = OUT != 0 && OUT != -27;
        assert!(rejected.is_some() == is_rej, "C04.rebroadcast: reported for deletion iff the node refuses it");
        assert!(rejected.as_ref().map_or(true, |x| x.len() == 1 && uuid_b0(&x[0]) == 0), "C04.rebroadcast: nobody else is reported");
        if !is_rej {
            assert!(now0 == Some(ConfirmationStatus::InMempoolSince(height)), "C04.rebroadcast: the new verdict is recorded");
        }
    } else {
        assert!(n_sent == 0, "C04.rebroadcast: nothing else is re-submitted");
        assert!(rejected.is_none(), "C04.rebroadcast: nothing is reported");
        assert!(now0 == Some(st0), "C04.rebroadcast: status untouched");
    }
    assert!(!BYSTANDER || dbm.verif_tracker_row(uuid(1)).map(|t| t.status) == Some(st1), "C04.rebroadcast: confirmed trackers are never re-submitted");
    kani::cover!(true, "reach");
    drop(dbm);
    std::mem::forget(rejected);
    std::mem::forget(r);
}

macro_rules! rb_harness {
    ($name:ident, $h0:expr, $by:expr, $out:expr) => {
        #[kani::proof]
        #[kani::stub(bitcoin::Transaction::compute_txid, crate::verif_stubs::txid_model)]
        #[kani::stub(bitcoin::block::Header::block_hash, crate::verif_stubs::block_hash_model)]
        #[kani::stub(Carrier::hang_until_bitcoind_reachable, Carrier::hang_model)]
        #[kani::stub(Carrier::send_transaction, Carrier::send_transaction_contract)]
        #[kani::unwind(6)]
        fn $name() {
            rebroadcast_step::<$h0, $by, $out>();
        }
    };
}
rb_harness!(c04_p4_rebroadcast_stale_boundary_accepted, 10, false, 0);
rb_harness!(c04_p4_rebroadcast_stale_boundary_rejected, 10, false, -26);
rb_harness!(c04_p4_rebroadcast_stale_old_unknown_error, 2, false, -1);
rb_harness!(c04_p4_rebroadcast_fresh_boundary, 11, true, 0);

/// Witness for known finding F7: a re-submitted penalty that the node reports as already in the chain (-27) makes
/// rebroadcast_stale_txs unwrap() a MissingField error (acknowledged by a DISCUSS comment in the source).
#[kani::proof]
#[kani::stub(bitcoin::Transaction::compute_txid, crate::verif_stubs::txid_model)]
#[kani::stub(bitcoin::block::Header::block_hash, crate::verif_stubs::block_hash_model)]
#[kani::stub(Carrier::hang_until_bitcoind_reachable, Carrier::hang_model)]
#[kani::stub(Carrier::send_transaction, Carrier::send_transaction_contract)]
#[kani::unwind(6)]
fn c04_p4_rebroadcast_f7() {
    let r = concrete_responder(None);
    push_tracker(&r, 0, ConfirmationStatus::InMempoolSince(2));
    r.carrier.lock().unwrap().update_height(16);
    unsafe { node::SCRIPT = Some(Outcome::Rpc(-27)) };
    let rejected = r.rebroadcast_stale_txs(16);
    kani::cover!(true, "reach");
    std::mem::forget(rejected);
    std::mem::forget(r);
}


/// C11.K / C04.P3b (F13 regression): a reorged uuid whose tracker is gone (its owner was purged by the gatekeeper, which
/// processes the block first) is skipped: no panic, nothing sent, nothing reported; other trackers are untouched.
#[kani::proof]
#[kani::stub(bitcoin::Transaction::compute_txid, crate::verif_stubs::txid_model)]
#[kani::stub(bitcoin::block::Header::block_hash, crate::verif_stubs::block_hash_model)]
#[kani::stub(Carrier::hang_until_bitcoind_reachable, Carrier::hang_model)]
#[kani::stub(Carrier::send_transaction, Carrier::send_transaction_contract)]
#[kani::unwind(6)]
fn c11_reorged_tracker_purged() {
    let r = concrete_responder(None);
    let height: u32 = kani::any();
    push_tracker(&r, 1, ConfirmationStatus::ConfirmedIn(7));
    r.reorged_trackers.lock().unwrap().insert(uuid(0)); // no row for uuid(0); tracker 1 is a bystander that was not reorged
    unsafe { node::SCRIPT = Some(Outcome::Ok) };
    let rejected = r.handle_reorged_txs(height);
    assert!(r.reorged_trackers.lock().unwrap().is_empty(), "C04.resubmit: the reorged set is consumed");
    assert!(unsafe { node::N_SENT } == 0, "C02: nothing is sent for a tracker that no longer exists");
    assert!(rejected.is_none(), "C11.purged: a vanished tracker is neither reported nor crashes the block handler");
    assert!(r.dbm.lock().unwrap().verif_tracker_row(uuid(1)).map(|t| t.status) == Some(ConfirmationStatus::ConfirmedIn(7)), "C04.resubmit: trackers that were not reorged are untouched");
    kani::cover!(true, "reach");
    std::mem::forget(rejected);
    std::mem::forget(r);
}
