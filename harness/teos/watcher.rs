//! Kani harnesses (watcher)
