//! Kani harnesses for `Watcher` (child module of teos/src/watcher.rs under cfg(kani)). Serves C01, C02, C06, C08, C11.
//!
//! One request / one block event from a pre-state whose *shape* (which rows exist, what the cache holds, what the
//! signature recovers to, what the node answers) is concrete per harness while the scalars that do not steer control
//! flow (heights, balances, delays, blob length) are symbolic. Collaborators: real Gatekeeper, real Responder, real
//! Carrier (through its contract stub where noted), DBM model, node model, cryptography stubs (models/stubs_teos.rs).
use super::*;
use crate::carrier::Carrier;
use crate::responder::verif_harness::concrete_responder;
use crate::verif_bitcoind as node;
use crate::verif_bitcoind::Outcome;
use crate::verif_collections::HashMap as VMap;
use crate::verif_stubs::*;

/// Dispute transaction of the harness universe: `tx(DISPUTE)`, its penalty is `tx(DISPUTE + 100)`.
const DISPUTE: u32 = 100;

impl Watcher {
    pub(crate) fn verif_set_height(&self, h: u32) {
        self.last_known_block_height.store(h, Ordering::Release);
    }
    pub(crate) fn verif_height(&self) -> u32 {
        self.last_known_block_height.load(Ordering::Acquire)
    }
}

/// A watcher whose locator cache (size 2) holds two blocks; block 2 contains the dispute transaction iff `in_cache`.
/// user(0) and user(1) are registered (arbitrary records are written in place by the caller through `set_user`).
pub(crate) fn concrete_watcher(in_cache: bool, penalty_in_index: bool) -> Watcher {
    let p = tx(DISPUTE + 100);
    let responder = Arc::new(concrete_responder(if penalty_in_index { Some(&p) } else { None }));
    let gatekeeper = responder.verif_gatekeeper();
    let dbm = responder.verif_dbm();
    let mut cache: TxIndex<Locator, Transaction> = TxIndex::verif_empty(2, 10);
    let empty: VMap<Locator, Transaction> = VMap::new();
    cache.update(hdr(1), &empty);
    let mut m: VMap<Locator, Transaction> = VMap::new();
    if in_cache {
        m.insert(locator_of_tx(DISPUTE), tx(DISPUTE));
    }
    cache.update(hdr(2), &m);
    std::mem::forget(m);
    let sk: SecretKey = unsafe { std::mem::transmute([1u8; 32]) };
    Watcher {
        locator_cache: Mutex::new(cache),
        responder,
        gatekeeper,
        last_known_block_height: AtomicU32::new(0),
        signing_key: sk,
        tower_id: user(9),
        dbm,
    }
}

/// Writes user(i)'s record (memory and database) in place.
fn set_user(w: &Watcher, i: u8, info: UserInfo) {
    w.gatekeeper.verif_set_user(user(i), info);
}

fn the_uuid(owner: u8) -> UUID {
    uuid_model(locator_of_tx(DISPUTE), user(owner))
}

#[derive(Clone, Copy, PartialEq, Eq)]
enum Pre {
    /// no row for the uuid
    Fresh,
    /// an appointment row (7-byte blob => 1 slot) exists
    Stored,
    /// an appointment row with exactly the blob of the request exists (older delay, signature and start block)
    StoredSame,
    /// appointment row and tracker exist
    Triggered,
}

/// add_appointment shapes. `recovered`: what the signature recovers to (None = error, Some(2) = unregistered key).
/// `expired`: the tower height is at (true) or one below (false) the subscription expiry. `slots`: the user's balance is
/// 0 (false) or arbitrary >= 9 (true). `blob_ok`: the blob decrypts under the dispute id. `node`: verdict for the penalty.
fn add_appointment_step(
    recovered: Option<u8>,
    expired: bool,
    pre: Pre,
    has_slots: bool,
    in_cache: bool,
    blob_ok: bool,
    node_reply: Outcome,
    len: usize,
) {
    let w = concrete_watcher(in_cache, false);
    let expiry: u32 = kani::any();
    kani::assume(expiry >= 1);
    let gk_height = if expired { expiry } else { expiry - 1 };
    w.gatekeeper.verif_set_height(gk_height);
    let balance: u32 = if has_slots { kani::any() } else { 0 };
    kani::assume(!has_slots || balance >= 9);
    let info0 = UserInfo::new(balance, kani::any(), expiry);
    let info1 = UserInfo::new(kani::any(), kani::any(), kani::any());
    set_user(&w, 0, info0);
    set_user(&w, 1, info1);
    let wh: u32 = kani::any();
    w.verif_set_height(wh);
    let ch: u32 = kani::any();
    w.responder.verif_set_carrier_height(ch);
    let uuid0 = the_uuid(0);
    {
        let dbm = w.dbm.lock().unwrap();
        if pre == Pre::StoredSame {
            let (s0, s1) = if blob_ok { (1u8, DISPUTE as u8) } else { (7u8, 7u8) };
            dbm.verif_push_appointment(uuid0, ExtendedAppointment::new(appointment_with_blob(DISPUTE as u8, len, s0, s1, 5), user(0), sig_of(b'o'), 3));
        } else if pre != Pre::Fresh {
            dbm.verif_push_appointment(uuid0, ExtendedAppointment::new(appointment_with_blob(DISPUTE as u8, 7, 9, 9, 5), user(0), sig_of(b'o'), 3));
        }
        if pre == Pre::Triggered {
            dbm.verif_push_tracker(uuid0, tracker(0, user(0), ConfirmationStatus::ConfirmedIn(4)));
        }
        // another user's appointment for the same locator (independent of everything below)
        dbm.verif_push_appointment(the_uuid(1), ExtendedAppointment::new(appointment_with_blob(DISPUTE as u8, 7, 8, 8, 6), user(1), sig_of(b'p'), 2));
    }
    // the blob length is concrete per harness (the request handler serialises the blob: a symbolic length makes that copy
    // unmanageable); the slot arithmetic for every length is decided at the Gatekeeper level (C07.K2)
    let delay: u32 = kani::any();
    let (b0, b1) = if blob_ok { (1u8, DISPUTE as u8) } else { (7u8, 7u8) };
    let appointment = appointment_with_blob(DISPUTE as u8, len, b0, b1, delay);
    unsafe {
        RECOVER_SCRIPT = recovered;
        node::SCRIPT = Some(node_reply);
        node::QUERY_SCRIPT = Some(Outcome::Rpc(-5)); // not in the mempool
    }
    let other_before = w.dbm.lock().unwrap().verif_app_row(the_uuid(1));
    let w0 = w.dbm.lock().unwrap().verif_writes();

    let r = w.add_appointment(appointment, sig_of(b'u'));

    let (m0, d0) = (w.gatekeeper.verif_mem(user(0)), w.gatekeeper.verif_db(user(0)));
    let (m1, d1) = (w.gatekeeper.verif_mem(user(1)), w.gatekeeper.verif_db(user(1)));
    let dbm = w.dbm.lock().unwrap();
    let row = dbm.verif_app_row(uuid0);
    let trk = dbm.verif_tracker_row(uuid0);
    let n_sent = unsafe { node::N_SENT };
    // --- C06: the message that was authenticated is the appointment's serialisation: locator(16) || blob || delay(4)
    assert!(unsafe { RECOVER_CALLS } == 1 && unsafe { RECOVER_MSG.0 } == 16 + len + 4 && unsafe { RECOVER_MSG.1 } == DISPUTE as u8
        && unsafe { RECOVER_MSG.2 } == b0 && unsafe { RECOVER_SIG0 } == b'u',
        "C06.auth: add_appointment authenticates the user's signature over exactly the serialised appointment");
    // --- isolation: the other user's record and appointment are untouched on every path
    assert!(m1 == Some(info1) && d1 == Some(info1),
        "C06.isolation: another user's subscription is never altered");
    assert!(dbm.verif_app_row(the_uuid(1)) == other_before, "C06.isolation: another user's appointment for the same locator is never altered");
    let authenticated = matches!(recovered, Some(k) if k < 2);
    let slots_needed = slots_spec(len) as i64 - if pre == Pre::Fresh { 0 } else if pre == Pre::StoredSame { slots_spec(len) as i64 } else { 1 };
    if !authenticated || recovered != Some(0) {
        if !authenticated {
            assert!(matches!(r, Err(AddAppointmentFailure::AuthenticationFailure)), "C06.auth: an unrecoverable or unregistered key is refused");
            assert!(dbm.verif_writes() == w0 && n_sent == 0, "C06.auth: a refused request changes nothing");
        }
    } else if expired {
        assert!(matches!(r, Err(AddAppointmentFailure::SubscriptionExpired(x)) if x == expiry), "C09.expired: the error states the expiry");
        assert!(dbm.verif_writes() == w0 && n_sent == 0, "C06.auth: a refused request changes nothing");
    } else if pre == Pre::Triggered {
        assert!(matches!(r, Err(AddAppointmentFailure::AlreadyTriggered)), "C01: an appointment that was already responded to cannot be replaced");
        assert!(dbm.verif_writes() == w0 && n_sent == 0, "C06.auth: a refused request changes nothing");
    } else if slots_needed > balance as i64 {
        assert!(matches!(r, Err(AddAppointmentFailure::NotEnoughSlots)), "C07.charge: refused when slots are missing");
        assert!(dbm.verif_writes() == w0 && n_sent == 0, "C06.auth: a refused request changes nothing");
    } else {
        // accepted
        let (receipt, slots, exp) = match &r {
            Ok((a, b, c)) => (a, *b, *c),
            Err(_) => {
                assert!(false, "C08.accept: an authenticated, unexpired, affordable request is accepted");
                return;
            }
        };
        assert!(receipt.start_block() == wh, "C08.receipt: the start block is the tower's height at acceptance");
        assert!(receipt.user_signature().as_bytes().first().copied() == Some(b'u') && receipt.signature().is_some(),
            "C08.receipt: the receipt carries the user's own signature and the tower's");
        assert!(unsafe { SIGN_CALLS } == 1 && unsafe { SIGN_MSG.0 } == 1 + 4 && unsafe { SIGN_MSG.1 } == b'u' && unsafe { SIGN_MSG.2 } == wh.to_be_bytes(),
            "C08.receipt: the tower signs exactly user_signature || start_block");
        assert!(exp == expiry, "C08.receipt: the reported expiry is the stored one");
        let want_balance = (balance as i64 - slots_needed) as u32;
        assert!(slots == want_balance && m0.map(|i| i.available_slots) == Some(want_balance)
            && d0.map(|i| i.available_slots) == Some(want_balance),
            "C07.charge: the balance told to the user, in memory and in the database is old - (slots(new) - slots(old))");
        let stored_new = row.map_or(false, |a| a.blob_len == len && a.blob_tag == [b0, b1] && a.to_self_delay == delay && a.sig == b'u'
            && a.start_block == wh && uid(&a.user_id) == 0);
        if !in_cache {
            assert!(stored_new, "C08.stored: the accepted version (blob, delay, signature, start block, owner) is what is stored");
            assert!(trk.is_none() && n_sent == 0, "C02: nothing is sent for an appointment that was not triggered");
            assert!(unsafe { DECRYPT_CALLS } == 0, "C02: an untriggered blob is not decrypted");
        } else {
            assert!(unsafe { DECRYPT_CALLS } == 1 && unsafe { DECRYPT_ARGS } == (len, b0, b1, DISPUTE as u8),
                "C01.late: a late appointment's blob is decrypted with the id of the cached dispute transaction");
            if !blob_ok {
                assert!(n_sent == 0 && trk.is_none(), "C02: nothing is sent for a blob that does not decrypt");
                assert!(row.is_none() || pre == Pre::Stored, "C01.late: an undecryptable late appointment is dropped");
            } else {
                assert!(n_sent == 1 && unsafe { node::SENT[0] }.map(|t| AsRef::<[u8; 32]>::as_ref(&t)[0]) == Some((DISPUTE + 100) as u8),
                    "C01.late: the decrypted penalty is submitted before the request is answered");
                let verdict = crate::carrier::verif_harness::expected_status(node_reply, ch);
                if verdict.accepted() {
                    assert!(stored_new, "C08.stored: the accepted version is what is stored");
                    assert!(trk.map_or(false, |t| t.dispute == DISPUTE && t.penalty == DISPUTE + 100 && t.status == verdict && uid(&t.user_id) == 0),
                        "C01.late: from then on the appointment is a tracker with exactly that dispute and penalty");
                } else if matches!(verdict, ConfirmationStatus::Rejected(_)) {
                    assert!(row.is_none() && trk.is_none(), "C01.late: if the node refuses the penalty only that appointment is dropped");
                } else {
                    assert!(trk.is_none(), "C02: no tracker without the node having taken the penalty");
                    assert!(row.is_none(), "C11.retrigger: a late appointment whose penalty the node reports as already in the chain is not left behind without a tracker");
                }
            }
        }
    }
    kani::cover!(true, "reach");
    drop(dbm);
    std::mem::forget(r);
    std::mem::forget(w);
}

fn slots_spec(n: usize) -> u32 {
    core::cmp::max(1, ((n + 2047) / 2048) as u32)
}

macro_rules! w_harness {
    ($name:ident, $body:expr) => {
        #[kani::proof]
        #[kani::stub(bitcoin::Transaction::compute_txid, crate::verif_stubs::txid_model)]
        #[kani::stub(bitcoin::block::Header::block_hash, crate::verif_stubs::block_hash_model)]
        #[kani::stub(Carrier::hang_until_bitcoind_reachable, Carrier::hang_model)]
        #[kani::stub(teos_common::cryptography::recover_pk, crate::verif_stubs::recover_pk_scripted)]
        #[kani::stub(teos_common::cryptography::sign, crate::verif_stubs::sign_model)]
        #[kani::stub(teos_common::cryptography::decrypt, crate::verif_stubs::decrypt_model)]
        #[kani::stub(crate::extended_appointment::UUID::new, crate::verif_stubs::uuid_model)]
        #[kani::unwind(6)]
        fn $name() {
            $body
        }
    };
}

/// Same, with the Carrier replaced by its contract (decided by C12.K1): used where the request reaches the Responder.
macro_rules! wc_harness {
    ($name:ident, $body:expr) => {
        #[kani::proof]
        #[kani::stub(bitcoin::Transaction::compute_txid, crate::verif_stubs::txid_model)]
        #[kani::stub(bitcoin::block::Header::block_hash, crate::verif_stubs::block_hash_model)]
        #[kani::stub(Carrier::send_transaction, Carrier::send_transaction_contract)]
        #[kani::stub(Carrier::in_mempool, Carrier::in_mempool_contract)]
        #[kani::stub(teos_common::cryptography::recover_pk, crate::verif_stubs::recover_pk_scripted)]
        #[kani::stub(teos_common::cryptography::sign, crate::verif_stubs::sign_model)]
        #[kani::stub(teos_common::cryptography::decrypt, crate::verif_stubs::decrypt_model)]
        #[kani::stub(crate::extended_appointment::UUID::new, crate::verif_stubs::uuid_model)]
        #[kani::unwind(6)]
        fn $name() {
            $body
        }
    };
}

w_harness!(c06_add_bad_signature, add_appointment_step(None, false, Pre::Fresh, true, false, true, Outcome::Ok, 3));
w_harness!(c06_add_unregistered_key, add_appointment_step(Some(2), false, Pre::Fresh, true, false, true, Outcome::Ok, 3));
w_harness!(c06_add_expired, add_appointment_step(Some(0), true, Pre::Fresh, true, false, true, Outcome::Ok, 3));
w_harness!(c06_add_already_triggered, add_appointment_step(Some(0), false, Pre::Triggered, true, false, true, Outcome::Ok, 3));
w_harness!(c07_add_no_slots, add_appointment_step(Some(0), false, Pre::Fresh, false, false, true, Outcome::Ok, 3));
w_harness!(c07_add_two_slots, add_appointment_step(Some(0), false, Pre::Fresh, true, false, true, Outcome::Ok, 2049));
w_harness!(c07_add_update_grow, add_appointment_step(Some(0), false, Pre::Stored, true, false, true, Outcome::Ok, 4097));
w_harness!(c08_add_new, add_appointment_step(Some(0), false, Pre::Fresh, true, false, true, Outcome::Ok, 3));
w_harness!(c08_add_update, add_appointment_step(Some(0), false, Pre::Stored, true, false, true, Outcome::Ok, 3));
w_harness!(c08_add_update_same_blob, add_appointment_step(Some(0), false, Pre::StoredSame, true, false, true, Outcome::Ok, 3));
wc_harness!(c01_add_late_accepted, add_appointment_step(Some(0), false, Pre::Fresh, true, true, true, Outcome::Ok, 3));
wc_harness!(c01_add_late_garbled, add_appointment_step(Some(0), false, Pre::Fresh, true, true, false, Outcome::Ok, 3));
wc_harness!(c01_add_late_rejected, add_appointment_step(Some(0), false, Pre::Fresh, true, true, true, Outcome::Rpc(-26), 3));
wc_harness!(c11_add_late_already_in_chain, add_appointment_step(Some(0), false, Pre::Fresh, true, true, true, Outcome::Rpc(-27), 3));

// ------------------------------------------------------------------------------------------------ late appointments
/// C01.P4 / C11: `store_triggered_appointment` (what add_appointment calls on a cache hit, with the cached dispute
/// transaction) as a unit: decrypts with the dispute's id; a decrypted penalty is stored and handed to the responder;
/// a refused penalty takes the appointment away again; an undecryptable blob stores nothing.
fn store_triggered_step(pre: Pre, blob_ok: bool, node_reply: Outcome) {
    let w = concrete_watcher(false, false);
    let ch: u32 = kani::any();
    w.responder.verif_set_carrier_height(ch);
    let uuid0 = the_uuid(0);
    if pre != Pre::Fresh {
        w.dbm.lock().unwrap().verif_push_appointment(uuid0, ExtendedAppointment::new(appointment_with_blob(DISPUTE as u8, 7, 9, 9, 5), user(0), sig_of(b'o'), 3));
    }
    w.dbm.lock().unwrap().verif_push_appointment(the_uuid(1), ExtendedAppointment::new(appointment_with_blob(DISPUTE as u8, 7, 8, 8, 6), user(1), sig_of(b'p'), 2));
    let (b0, b1) = if blob_ok { (1u8, DISPUTE as u8) } else { (7u8, 7u8) };
    let delay: u32 = kani::any();
    let start: u32 = kani::any();
    let ext = ExtendedAppointment::new(appointment_with_blob(DISPUTE as u8, 3, b0, b1, delay), user(0), sig_of(b'u'), start);
    unsafe {
        node::SCRIPT = Some(node_reply);
        node::QUERY_SCRIPT = Some(Outcome::Rpc(-5));
    }
    let other_before = w.dbm.lock().unwrap().verif_app_row(the_uuid(1));
    let dispute = tx(DISPUTE);
    let r = w.store_triggered_appointment(uuid0, &ext, user(0), &dispute);
    let dbm = w.dbm.lock().unwrap();
    let row = dbm.verif_app_row(uuid0);
    let trk = dbm.verif_tracker_row(uuid0);
    let n_sent = unsafe { node::N_SENT };
    assert!(unsafe { DECRYPT_CALLS } == 1 && unsafe { DECRYPT_ARGS } == (3, b0, b1, DISPUTE as u8),
        "C01.late: the blob is decrypted with the id of the dispute transaction");
    assert!(dbm.verif_app_row(the_uuid(1)) == other_before, "C06.isolation: another user's appointment for the same locator is never altered");
    if !blob_ok {
        assert!(r == TriggeredAppointment::Invalid && n_sent == 0 && trk.is_none() && row.is_none(), "C02/C01.late: a blob that does not decrypt is dropped and nothing is sent");
    } else {
        assert!(n_sent == 1 && unsafe { node::SENT[0] }.map(|t| AsRef::<[u8; 32]>::as_ref(&t)[0]) == Some((DISPUTE + 100) as u8),
            "C01.late: the decrypted penalty is submitted before the request is answered");
        let verdict = crate::carrier::verif_harness::expected_status(node_reply, ch);
        if verdict.accepted() {
            assert!(r == TriggeredAppointment::Accepted, "C01.late: accepted");
            assert!(row.map_or(false, |a| a.blob_tag == [b0, b1] && a.to_self_delay == delay && a.sig == b'u' && a.start_block == start && uid(&a.user_id) == 0),
                "C08.stored: the accepted version is what is stored");
            assert!(trk.map_or(false, |t| t.dispute == DISPUTE && t.penalty == DISPUTE + 100 && t.status == verdict && uid(&t.user_id) == 0),
                "C01.late: from then on the appointment is a tracker with exactly that dispute and penalty");
        } else if matches!(verdict, ConfirmationStatus::Rejected(_)) {
            assert!(r == TriggeredAppointment::Rejected && row.is_none() && trk.is_none(), "C01.late: if the node refuses the penalty only that appointment is dropped");
        } else {
            assert!(trk.is_none(), "C02: no tracker without the node having taken the penalty");
            assert!(row.is_none(), "C11.retrigger: a late appointment whose penalty the node reports as already in the chain is not left behind without a tracker");
        }
    }
    kani::cover!(true, "reach");
    drop(dbm);
    std::mem::forget(w);
}

wc_harness!(c01_late_accepted, store_triggered_step(Pre::Fresh, true, Outcome::Ok));
wc_harness!(c01_late_garbled, store_triggered_step(Pre::Fresh, false, Outcome::Ok));
wc_harness!(c01_late_rejected, store_triggered_step(Pre::Fresh, true, Outcome::Rpc(-26)));
wc_harness!(c11_late_already_in_chain, store_triggered_step(Pre::Fresh, true, Outcome::Rpc(-27)));
// (the shape `row exists + cache hit + no tracker` was reachable before the F15 fix and made store_appointment().unwrap()
// panic; after the fix every processed dispute leaves a tracker or no row, which c11_late_already_in_chain and
// c01_late_* assert, so that pre-state is excluded as unreachable)

/// C01.P4e: late appointment whose penalty is already confirmed in one of the last blocks the responder indexes: the
/// response is recorded as ConfirmedIn(that block's height), nothing is sent, the appointment is kept with its tracker.
fn late_confirmed_step() {
    let w = concrete_watcher(false, true);
    let tip = crate::responder::verif_harness::havoc_responder(&w.responder);
    let uuid0 = the_uuid(0);
    let ext = ExtendedAppointment::new(appointment_with_blob(DISPUTE as u8, 3, 1, DISPUTE as u8, 5), user(0), sig_of(b'u'), 4);
    let dispute = tx(DISPUTE);
    let r = w.store_triggered_appointment(uuid0, &ext, user(0), &dispute);
    let dbm = w.dbm.lock().unwrap();
    assert!(r == TriggeredAppointment::Accepted, "C01.late: a penalty that is already confirmed counts as responded");
    assert!(unsafe { node::N_SENT } == 0, "C02: nothing is sent for a penalty that is already confirmed");
    assert!(dbm.verif_app_row(uuid0).is_some(), "C01.late: the appointment is kept");
    assert!(dbm.verif_tracker_row(uuid0).map_or(false, |t| t.dispute == DISPUTE && t.penalty == DISPUTE + 100
        && t.status == ConfirmationStatus::ConfirmedIn(tip) && uid(&t.user_id) == 0),
        "C01.late: from then on the appointment is a tracker with exactly that dispute and penalty, confirmed at the block's true height");
    kani::cover!(true, "reach");
    drop(dbm);
    std::mem::forget(w);
}
wc_harness!(c01_late_penalty_confirmed, late_confirmed_step());

/// C01.P2 / C06: one breached locator shared by two users (user 0: blob decrypts, user 1: garbled blob): each appointment
/// is decrypted on its own; user 0 gets a tracker with *its* penalty, user 1's appointment (only) is reported invalid.
fn handle_breaches_step() {
    let w = concrete_watcher(false, false);
    let ch: u32 = kani::any();
    w.responder.verif_set_carrier_height(ch);
    {
        let dbm = w.dbm.lock().unwrap();
        dbm.verif_push_appointment(the_uuid(1), ExtendedAppointment::new(appointment_with_blob(DISPUTE as u8, 7, 8, 8, 6), user(1), sig_of(b'p'), 2));
        dbm.verif_push_appointment(the_uuid(0), ExtendedAppointment::new(appointment_with_blob(DISPUTE as u8, 7, 1, DISPUTE as u8, 5), user(0), sig_of(b'o'), 3));
    }
    unsafe {
        node::SCRIPT = Some(Outcome::Ok);
        node::QUERY_SCRIPT = Some(Outcome::Rpc(-5));
    }
    let mut breaches: VMap<Locator, Transaction> = VMap::new();
    breaches.insert(locator_of_tx(DISPUTE), tx(DISPUTE));
    let invalid = w.handle_breaches(breaches);
    let dbm = w.dbm.lock().unwrap();
    assert!(unsafe { DECRYPT_CALLS } == 2, "C01.breach: every appointment under the breached locator is decrypted on its own");
    assert!(unsafe { node::N_SENT } == 1 && unsafe { node::SENT[0] }.map(|t| AsRef::<[u8; 32]>::as_ref(&t)[0]) == Some((DISPUTE + 100) as u8),
        "C01.breach: the decrypted penalty (and nothing for the garbled blob) is submitted while the block is handled");
    assert!(dbm.verif_tracker_row(the_uuid(0)).map_or(false, |t| t.dispute == DISPUTE && t.penalty == DISPUTE + 100
        && t.status == ConfirmationStatus::InMempoolSince(ch) && uid(&t.user_id) == 0),
        "C01.breach: the accepted appointment becomes a tracker with exactly that dispute and penalty, owned by its user");
    assert!(dbm.verif_tracker_row(the_uuid(1)).is_none(), "C06.isolation: the other user's garbled appointment gets no tracker");
    assert!(invalid.as_ref().map_or(false, |v| v.len() == 1 && v[0] == the_uuid(1)),
        "C01.breach: only the appointment that does not decrypt is reported for deletion");
    kani::cover!(true, "reach");
    drop(dbm);
    std::mem::forget(invalid);
    std::mem::forget(w);
}
wc_harness!(c01_p2_handle_breaches_shared_locator, handle_breaches_step());

/// C06 / C01.P2b: two users share a breached locator and *both* blobs are garbled: each is decrypted on its own (two
/// calls, each with that appointment's blob), both are reported invalid, nothing is sent.
fn handle_breaches_both_garbled_step() {
    let w = concrete_watcher(false, false);
    {
        let dbm = w.dbm.lock().unwrap();
        dbm.verif_push_appointment(the_uuid(1), ExtendedAppointment::new(appointment_with_blob(DISPUTE as u8, 7, 8, 8, 6), user(1), sig_of(b'p'), 2));
        dbm.verif_push_appointment(the_uuid(0), ExtendedAppointment::new(appointment_with_blob(DISPUTE as u8, 9, 5, 5, 5), user(0), sig_of(b'o'), 3));
    }
    let mut breaches: VMap<Locator, Transaction> = VMap::new();
    breaches.insert(locator_of_tx(DISPUTE), tx(DISPUTE));
    let invalid = w.handle_breaches(breaches);
    assert!(unsafe { DECRYPT_CALLS } == 2, "C01.breach: every appointment under the breached locator is decrypted on its own");
    assert!(unsafe { DECRYPT_ARGS } == (9, 5, 5, DISPUTE as u8), "C06.isolation: the second appointment is judged by its own blob");
    assert!(unsafe { node::N_SENT } == 0, "C02: nothing is sent for blobs that do not decrypt");
    assert!(invalid.as_ref().map_or(false, |v| v.len() == 2), "C01.breach: both undecryptable appointments are reported for deletion");
    kani::cover!(true, "reach");
    std::mem::forget(invalid);
    std::mem::forget(w);
}
wc_harness!(c06_handle_breaches_both_garbled, handle_breaches_both_garbled_step());

// ------------------------------------------------------------------------------------------------ read requests
/// C06.P2b: get_subscription_info: the authenticated message is the constant "get subscription info"; refused for an
/// unrecoverable signature, an unregistered key or at height == expiry (with that expiry); otherwise returns *that*
/// user's record and only that user's locators; never writes.
fn get_subscription_info_step(recovered: Option<u8>, expired: bool) {
    let w = concrete_watcher(false, false);
    let expiry: u32 = kani::any();
    kani::assume(expiry >= 1);
    w.gatekeeper.verif_set_height(if expired { expiry } else { expiry - 1 });
    let info0 = UserInfo::new(kani::any(), kani::any(), expiry);
    let info1 = UserInfo::new(kani::any(), kani::any(), kani::any());
    set_user(&w, 0, info0);
    set_user(&w, 1, info1);
    {
        let dbm = w.dbm.lock().unwrap();
        dbm.verif_push_appointment(the_uuid(0), ExtendedAppointment::new(appointment_with_blob(DISPUTE as u8, 7, 9, 9, 5), user(0), sig_of(b'o'), 3));
        dbm.verif_push_appointment(uuid(77), ExtendedAppointment::new(appointment_with_blob(55, 7, 8, 8, 6), user(1), sig_of(b'p'), 2));
    }
    unsafe { RECOVER_SCRIPT = recovered };
    let w0 = w.dbm.lock().unwrap().verif_writes();
    let r = w.get_subscription_info("s");
    assert!(unsafe { RECOVER_CALLS } == 1 && unsafe { RECOVER_MSG.0 } == 21 && unsafe { RECOVER_MSG.1 } == b'g' && unsafe { RECOVER_MSG.2 } == b' ',
        "C06.auth: get_subscription_info authenticates the signature over exactly \"get subscription info\"");
    assert!(w.dbm.lock().unwrap().verif_writes() == w0, "C06.read: a read request writes nothing");
    match recovered {
        Some(0) if !expired => match &r {
            Ok((info, locators)) => {
                assert!(*info == info0, "C06.read: the caller's own subscription is returned");
                assert!(locators.len() == 1 && locators[0] == locator_of_tx(DISPUTE), "C06.isolation: only the caller's own appointments are listed");
            }
            Err(_) => assert!(false, "C06.read: a registered, unexpired user is served"),
        },
        Some(0) => assert!(matches!(r, Err(GetSubscriptionInfoFailure::SubscriptionExpired(x)) if x == expiry), "C09.expired: the error states the expiry"),
        _ => assert!(matches!(r, Err(GetSubscriptionInfoFailure::AuthenticationFailure)), "C06.auth: an unrecoverable or unregistered key is refused"),
    }
    kani::cover!(true, "reach");
    std::mem::forget(r);
    std::mem::forget(w);
}
w_harness!(c06_subinfo_ok, get_subscription_info_step(Some(0), false));
w_harness!(c06_subinfo_expired, get_subscription_info_step(Some(0), true));
w_harness!(c06_subinfo_unregistered, get_subscription_info_step(Some(2), false));
w_harness!(c06_subinfo_bad_signature, get_subscription_info_step(None, false));

/// C06.P2c / C02.P4: get_appointment (message formatting stubbed, see DESIGN): after authentication the caller sees its
/// own tracker (dispute_responded) if one exists, else its own appointment, else NotFound; another user's appointment
/// for the same locator is never returned; nothing is written.
fn get_appointment_step(recovered: Option<u8>, pre: Pre) {
    let w = concrete_watcher(false, false);
    let expiry: u32 = kani::any();
    kani::assume(expiry >= 1);
    w.gatekeeper.verif_set_height(expiry - 1);
    set_user(&w, 0, UserInfo::new(kani::any(), kani::any(), expiry));
    set_user(&w, 1, UserInfo::new(kani::any(), kani::any(), kani::any()));
    {
        let dbm = w.dbm.lock().unwrap();
        if pre != Pre::Fresh {
            dbm.verif_push_appointment(the_uuid(0), ExtendedAppointment::new(appointment_with_blob(DISPUTE as u8, 7, 9, 9, 5), user(0), sig_of(b'o'), 3));
        }
        if pre == Pre::Triggered {
            dbm.verif_push_tracker(the_uuid(0), tracker(0, user(0), ConfirmationStatus::ConfirmedIn(4)));
        }
        dbm.verif_push_appointment(the_uuid(1), ExtendedAppointment::new(appointment_with_blob(DISPUTE as u8, 7, 8, 8, 6), user(1), sig_of(b'p'), 2));
    }
    unsafe { RECOVER_SCRIPT = recovered };
    let w0 = w.dbm.lock().unwrap().verif_writes();
    let r = w.get_appointment(locator_of_tx(DISPUTE), "s");
    assert!(w.dbm.lock().unwrap().verif_writes() == w0, "C06.read: a read request writes nothing");
    match (recovered, pre) {
        (Some(0), Pre::Triggered) => assert!(matches!(&r, Ok(AppointmentInfo::Tracker(t)) if t.dispute_tx.lock_time.to_consensus_u32() == 100
            && t.penalty_tx.lock_time.to_consensus_u32() == 200 && t.status == ConfirmationStatus::ConfirmedIn(4)),
            "C01.report: a responded appointment is reported as its tracker with exactly that dispute and penalty"),
        (Some(0), Pre::Stored) => assert!(matches!(&r, Ok(AppointmentInfo::Appointment(a)) if a.to_self_delay == 5 && a.encrypted_blob.len() == 7 && a.encrypted_blob[0] == 9),
            "C08.readback: an appointment that is being watched is returned as accepted (the caller's own version, not another user's)"),
        (Some(0), Pre::Fresh) => assert!(matches!(r, Err(GetAppointmentFailure::NotFound)), "C06.isolation: another user's appointment for the same locator is not revealed"),
        _ => assert!(matches!(r, Err(GetAppointmentFailure::AuthenticationFailure)), "C06.auth: an unrecoverable or unregistered key is refused"),
    }
    kani::cover!(true, "reach");
    std::mem::forget(r);
    std::mem::forget(w);
}
macro_rules! wf_harness {
    ($name:ident, $body:expr) => {
        #[kani::proof]
        #[kani::stub(bitcoin::Transaction::compute_txid, crate::verif_stubs::txid_model)]
        #[kani::stub(bitcoin::block::Header::block_hash, crate::verif_stubs::block_hash_model)]
        #[kani::stub(Carrier::hang_until_bitcoind_reachable, Carrier::hang_model)]
        #[kani::stub(teos_common::cryptography::recover_pk, crate::verif_stubs::recover_pk_scripted)]
        #[kani::stub(crate::extended_appointment::UUID::new, crate::verif_stubs::uuid_model)]
        #[kani::stub(alloc::fmt::format, crate::verif_stubs::format_model)]
        #[kani::unwind(6)]
        fn $name() {
            $body
        }
    };
}
wf_harness!(c06_getapp_tracker, get_appointment_step(Some(0), Pre::Triggered));
wf_harness!(c06_getapp_appointment, get_appointment_step(Some(0), Pre::Stored));
wf_harness!(c06_getapp_other_users_only, get_appointment_step(Some(0), Pre::Fresh));
wf_harness!(c06_getapp_bad_signature, get_appointment_step(None, Pre::Stored));

/// C08.P1: Watcher::register returns the gatekeeper's receipt, signed by the tower over exactly its serialisation.
fn register_step() {
    let w = concrete_watcher(false, false);
    let h: u32 = kani::any();
    w.gatekeeper.verif_set_height(h);
    let r = w.register(user(2));
    match &r {
        Ok(receipt) => {
            assert!(receipt.subscription_start() == h && receipt.signature().is_some(), "C08.receipt: the registration receipt starts at the tower's height and is signed");
            assert!(unsafe { SIGN_CALLS } == 1 && unsafe { SIGN_MSG.0 } == 33 + 12 && unsafe { SIGN_MSG.1 } == 2 && unsafe { SIGN_MSG.2 } == receipt.subscription_expiry().to_be_bytes(),
                "C08.receipt: the tower signs exactly user_id || slots || start || expiry");
            assert!(w.gatekeeper.verif_db(user(2)).map(|i| (i.available_slots, i.subscription_start, i.subscription_expiry))
                == Some((receipt.available_slots(), receipt.subscription_start(), receipt.subscription_expiry())),
                "C08.receipt: the receipt carries the persisted values");
        }
        Err(_) => assert!(false, "C09.register: a first registration cannot hit the slot limit"),
    }
    kani::cover!(true, "reach");
    std::mem::forget(r);
    std::mem::forget(w);
}
#[kani::proof]
#[kani::stub(bitcoin::Transaction::compute_txid, crate::verif_stubs::txid_model)]
#[kani::stub(bitcoin::block::Header::block_hash, crate::verif_stubs::block_hash_model)]
#[kani::stub(teos_common::cryptography::sign, crate::verif_stubs::sign_model)]
#[kani::stub(teos_common::UserId::to_vec, crate::verif_stubs::userid_to_vec_model)]
#[kani::unwind(36)]
fn c08_register_signed() {
    register_step();
}

// ------------------------------------------------------------------------------------------------ block connection
/// C01.P1: Watcher::filtered_block_connected for a block that contains the dispute of one stored appointment (blob good
/// or garbled) plus an unrelated transaction: the cache learns the block, the breach is answered (tracker) or the
/// garbled appointment (only) is deleted without refund, the height is recorded last.
fn block_connected_step(blob_ok: bool, verdict: Outcome) {
    let w = concrete_watcher(false, false);
    let ch: u32 = kani::any();
    w.responder.verif_set_carrier_height(ch);
    let bal: u32 = kani::any();
    set_user(&w, 0, UserInfo::new(bal, 1, 1000));
    let (b0, b1) = if blob_ok { (1u8, DISPUTE as u8) } else { (7u8, 7u8) };
    {
        let dbm = w.dbm.lock().unwrap();
        dbm.verif_push_appointment(the_uuid(0), ExtendedAppointment::new(appointment_with_blob(DISPUTE as u8, 7, b0, b1, 5), user(0), sig_of(b'o'), 3));
        dbm.verif_push_appointment(uuid(77), ExtendedAppointment::new(appointment_with_blob(55, 7, 8, 8, 6), user(1), sig_of(b'p'), 2));
    }
    unsafe {
        node::SCRIPT = Some(verdict);
        node::QUERY_SCRIPT = Some(Outcome::Rpc(-5));
    }
    let height: u32 = kani::any();
    let d = tx(DISPUTE);
    let other = tx(33);
    let txdata: Vec<(usize, &Transaction)> = vec![(0, &other), (1, &d)];
    chain::Listen::filtered_block_connected(&w, &hdr(3), &txdata, height);
    assert!(w.verif_height() == height, "C01.block: the watcher records the connected height");
    assert!(w.locator_cache.lock().unwrap().get(&locator_of_tx(DISPUTE)).is_some(), "C19/C01.block: the block's transactions enter the locator cache");
    let (m0, d0) = (w.gatekeeper.verif_mem(user(0)), w.gatekeeper.verif_db(user(0)));
    let dbm = w.dbm.lock().unwrap();
    assert!(dbm.appointment_exists(uuid(77)), "C01.block: appointments that were not triggered stay");
    assert!(m0.map(|i| i.available_slots) == Some(bal) && d0.map(|i| i.available_slots) == Some(bal), "C07: no slot is refunded for a dropped appointment");
    if blob_ok && verdict == Outcome::Ok {
        assert!(unsafe { node::N_SENT } == 1, "C01.block: the penalty is submitted while the block is handled");
        assert!(dbm.verif_tracker_row(the_uuid(0)).map_or(false, |t| t.dispute == DISPUTE && t.penalty == DISPUTE + 100 && t.status == ConfirmationStatus::InMempoolSince(ch)),
            "C01.block: the breached appointment becomes a tracker with exactly that dispute and penalty");
    } else if blob_ok {
        // the node refuses the penalty (-26 and the like) or says it is already in the chain (-27): no tracker can be
        // created, so the appointment must not stay behind as "being watched" either
        assert!(unsafe { node::N_SENT } == 1, "C01.block: the penalty is submitted while the block is handled");
        assert!(!dbm.tracker_exists(the_uuid(0)), "C02: no tracker without the node having taken the penalty");
        assert!(!dbm.appointment_exists(the_uuid(0)), "C01.block: a breached appointment is either responded (tracker) or dropped, never left as watched");
    } else {
        assert!(unsafe { node::N_SENT } == 0, "C02: nothing is sent for a blob that does not decrypt");
        assert!(!dbm.appointment_exists(the_uuid(0)) && !dbm.tracker_exists(the_uuid(0)), "C01.block: an appointment whose blob does not decrypt is dropped (only it)");
    }
    kani::cover!(true, "reach");
    drop(dbm);
    std::mem::forget(txdata);
    std::mem::forget(w);
}
wc_harness!(c01_p1_block_connected_breach, block_connected_step(true, Outcome::Ok));
wc_harness!(c01_p1_block_connected_garbled, block_connected_step(false, Outcome::Ok));
wc_harness!(c01_p1_block_connected_rejected, block_connected_step(true, Outcome::Rpc(-26)));
wc_harness!(c01_p1_block_connected_already_in_chain, block_connected_step(true, Outcome::Rpc(-27)));
