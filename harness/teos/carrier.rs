//! Kani harnesses (carrier)
