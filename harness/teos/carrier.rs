//! Kani harnesses for `Carrier` (child module of teos/src/carrier.rs under cfg(kani)). Serves C12.K1, C01.K3, C02.
//!
//! The node is `models/bitcoind.rs` (any reply, bounded number of transport errors). The condvar wait of
//! `hang_until_bitcoind_reachable` cannot be executed by Kani (futex) and is the subject of Engine M; here it is replaced
//! by `hang_model`: it records whether the flag was down on entry and puts it back up = "the chain monitor's next
//! successful poll happened".
use super::*;
use crate::verif_bitcoind as node;
use crate::verif_bitcoind::Outcome;
use crate::verif_stubs::{tx, txid_model};

pub static mut HANG_CALLS: u8 = 0;
pub static mut HANG_SAW_DOWN: u8 = 0;

impl Carrier {
    pub(crate) fn hang_model(&self) {
        let (lock, _) = &*self.bitcoind_reachable;
        let mut reachable = lock.lock().unwrap();
        unsafe {
            HANG_CALLS += 1;
            if !*reachable {
                HANG_SAW_DOWN += 1;
            }
        }
        *reachable = true;
    }
    /// Contract of `send_transaction` as established by `c12_k1_send_through_outage` (used to verify the Responder's
    /// loops against the carrier's contract instead of through its code): the transaction is handed to the node, the
    /// verdict is the mapping of *some* node reply at the carrier's current height, never `ConfirmedIn`.
    /// Over-approximation: no memoisation (every call may get a fresh verdict).
    pub(crate) fn send_transaction_contract(&mut self, tx: &Transaction) -> ConfirmationStatus {
        use crate::verif_bitcoind as node;
        let o = unsafe {
            kani::assume(node::N_SENT < node::MAX_LOG);
            node::SENT[node::N_SENT] = Some(tx.compute_txid());
            node::N_SENT += 1;
            let o = match node::SCRIPT.take() {
                Some(o) => o,
                None => match kani::any::<u8>() % 4 {
                    0 => Outcome::Ok,
                    1 => Outcome::Rpc(kani::any()),
                    2 => Outcome::JsonOther,
                    _ => Outcome::Other,
                },
            };
            node::LAST_OUTCOME = Some(o);
            node::SEND_OUTCOMES[node::N_SENT - 1] = Some(o);
            o
        };
        expected_status(o, self.block_height)
    }
    /// Contract of `in_mempool` as established by `c12_k1_in_mempool_through_outage`: one query for that id is answered
    /// by the node; true <=> the reply is Ok without a block hash.
    pub(crate) fn in_mempool_contract(&self, txid: &Txid) -> bool {
        use crate::verif_bitcoind as node;
        unsafe {
            kani::assume(node::N_QUERIED < node::MAX_LOG);
            node::QUERIED[node::N_QUERIED] = Some(*txid);
            node::N_QUERIED += 1;
            let o = match node::QUERY_SCRIPT {
                Some(o) => o,
                None => {
                    if kani::any() {
                        Outcome::Ok
                    } else {
                        Outcome::Rpc(-5)
                    }
                }
            };
            node::LAST_OUTCOME = Some(o);
            o == Outcome::Ok
        }
    }
    pub(crate) fn verif_receipts_len(&self) -> usize {
        self.issued_receipts.len()
    }
}

pub(crate) fn any_carrier() -> (Carrier, Arc<(Mutex<bool>, Condvar)>, u32) {
    let cli = Arc::new(BitcoindClient::model());
    let reach = Arc::new((Mutex::new(true), Condvar::new()));
    let mut c = Carrier::new(cli, reach.clone(), 0);
    let h: u32 = kani::any();
    c.update_height(h);
    (c, reach, h)
}

pub(crate) fn expected_status(o: Outcome, h: u32) -> ConfirmationStatus {
    match o {
        Outcome::Ok | Outcome::OkConfirmed => ConfirmationStatus::InMempoolSince(h),
        Outcome::Rpc(-26) => ConfirmationStatus::Rejected(-26),
        Outcome::Rpc(-25) => ConfirmationStatus::Rejected(-25),
        Outcome::Rpc(-27) => ConfirmationStatus::IrrevocablyResolved,
        Outcome::Rpc(-22) => ConfirmationStatus::Rejected(-22),
        _ => ConfirmationStatus::Rejected(-257),
    }
}

/// C12.K1 / C01.K3: send_transaction through an outage of k <= 2 transport errors: the same transaction is re-submitted
/// until a non-transport reply arrives, the flag goes down at every transport error, nothing is memoised for a failed
/// attempt, the verdict is the verdict of the first non-transport reply; afterwards the verdict is memoised (<= 1
/// successful RPC per transaction and block) and another transaction is submitted independently.
#[kani::proof]
#[kani::stub(bitcoin::Transaction::compute_txid, crate::verif_stubs::txid_model)]
#[kani::stub(Carrier::hang_until_bitcoind_reachable, Carrier::hang_model)]
#[kani::unwind(5)]
fn c12_k1_send_through_outage() {
    let (mut c, reach, h) = any_carrier();
    let budget: u8 = kani::any();
    kani::assume(budget <= 2);
    unsafe {
        node::TRANSPORT_BUDGET = budget;
        // another thread (the chain monitor) may flag the outage while the RPC is in flight
        node::FLAG = Some(Arc::as_ptr(&reach));
    }
    let t = tx(7);
    let r1 = c.send_transaction(&t);
    let (n_sent, n_tr, last) = unsafe { (node::N_SENT, node::N_TRANSPORT, node::LAST_OUTCOME) };
    assert!(n_sent == 1 + n_tr as usize, "C12.retry: one submission per transport error plus the one that got an answer");
    let mut i = 0;
    while i < n_sent {
        assert!(unsafe { node::SENT[i] } == Some(txid_model(&t)), "C12.retry: the interrupted submission is retried with the same transaction");
        i += 1;
    }
    assert!(unsafe { HANG_CALLS } as usize == n_sent, "C12.retry: every attempt first waits for the node to be reachable");
    assert!(unsafe { HANG_SAW_DOWN } == n_tr, "C12.flag: the tower is flagged unreachable after every transport error");
    let o = last.unwrap();
    assert!(r1 == expected_status(o, h), "C01.verdict: Ok => InMempoolSince(height); -26/-25/-22 => Rejected(code); -27 => IrrevocablyResolved; anything else => Rejected(unknown)");
    assert!(!matches!(r1, ConfirmationStatus::ConfirmedIn(_)), "C01.verdict: the carrier never claims a confirmation");
    assert!(c.verif_receipts_len() == 1, "C12.memo: exactly the final verdict is memoised");
    // memoisation: the same transaction is not sent twice in a block
    let r2 = c.send_transaction(&t);
    assert!(unsafe { node::N_SENT } == n_sent && r2 == r1, "C01.memo: <= 1 answered RPC per transaction and block, same verdict");
    // an unrelated transaction is sent
    unsafe { node::TRANSPORT_BUDGET = 0 };
    let t2 = tx(8);
    let _ = c.send_transaction(&t2);
    assert!(unsafe { node::N_SENT } == n_sent + 1 && unsafe { node::SENT[n_sent] } == Some(txid_model(&t2)),
        "C01.memo: another transaction is submitted on its own");
    // new block: receipts cleared, the transaction can be sent again
    c.clear_receipts();
    let _ = c.send_transaction(&t);
    assert!(unsafe { node::N_SENT } == n_sent + 2, "C01.memo: memoisation ends with the block");
    assert!(*reach.0.lock().unwrap(), "C12.flag: the flag is up again once the node answered");
    kani::cover!(n_tr == 2, "reach-two-transport-errors");
    kani::cover!(unsafe { node::N_FLAG_RACES } >= 1, "reach-monitor-flagged-first");
    kani::cover!(n_tr == 0 && matches!(o, Outcome::Rpc(-27)), "reach-already-in-chain");
    std::mem::forget(c);
}

/// C12.K1b / C01.K3: in_mempool through an outage; true <=> the first non-transport reply is Ok without block hash.
#[kani::proof]
#[kani::stub(bitcoin::Transaction::compute_txid, crate::verif_stubs::txid_model)]
#[kani::stub(Carrier::hang_until_bitcoind_reachable, Carrier::hang_model)]
#[kani::unwind(5)]
fn c12_k1_in_mempool_through_outage() {
    let (c, _reach, _h) = any_carrier();
    let budget: u8 = kani::any();
    kani::assume(budget <= 2);
    unsafe {
        node::TRANSPORT_BUDGET = budget;
        node::FLAG = Some(Arc::as_ptr(&_reach));
    }
    let id = txid_model(&tx(9));
    let r = c.in_mempool(&id);
    let (n_q, n_tr, last) = unsafe { (node::N_QUERIED, node::N_TRANSPORT, node::LAST_OUTCOME) };
    assert!(n_q == 1 + n_tr as usize, "C12.retry: the interrupted query is retried");
    let mut i = 0;
    while i < n_q {
        assert!(unsafe { node::QUERIED[i] } == Some(id), "C12.retry: with the same transaction id");
        i += 1;
    }
    assert!(unsafe { HANG_SAW_DOWN } == n_tr, "C12.flag: the tower is flagged unreachable after every transport error");
    assert!(r == (last == Some(Outcome::Ok)), "C01.mempool: in mempool <=> the node knows the transaction and reports no block");
    assert!(unsafe { node::N_SENT } == 0, "C02: a query never submits anything");
    kani::cover!(n_tr == 2 && r, "reach-two-transport-errors-then-found");
    std::mem::forget(c);
}

/// C01.K3c: height bookkeeping used for InMempoolSince.
#[kani::proof]
#[kani::stub(bitcoin::Transaction::compute_txid, crate::verif_stubs::txid_model)]
#[kani::stub(Carrier::hang_until_bitcoind_reachable, Carrier::hang_model)]
#[kani::unwind(5)]
fn c01_k3_height() {
    let (mut c, _reach, _h) = any_carrier();
    let h2: u32 = kani::any();
    c.update_height(h2);
    assert!(c.block_height() == h2);
    unsafe { node::SCRIPT = Some(Outcome::Ok) };
    let r = c.send_transaction(&tx(1));
    assert!(r == ConfirmationStatus::InMempoolSince(h2), "C01.verdict: accepted now => in mempool since the carrier's current height");
    kani::cover!(true, "reach");
    std::mem::forget(c);
}
