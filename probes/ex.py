import re, sys, json, collections
src = open(sys.argv[1]).read()
# split into functions
fn_re = re.compile(r'^fn (.+?)\((.*?)\) -> (.+?) \{\n(.*?)^\}\n', re.S | re.M)
funcs = {}
for m in fn_re.finditer(src):
    name = m.group(1)
    body = m.group(4)
    funcs[name] = body
print(len(funcs), "functions", file=sys.stderr)

bb_re = re.compile(r'^    (bb\d+)(?: \(cleanup\))?: \{\n(.*?)^    \}\n', re.S | re.M)
call_re = re.compile(r'^\s*(_\d+) = (.+?)\((.*)\) -> \[return: (bb\d+)(?:, unwind[^\]]*)?\];', re.M)
drop_re = re.compile(r'^\s*drop\((_\d+)\) -> \[return: (bb\d+)', re.M)
goto_re = re.compile(r'^\s*goto -> (bb\d+);', re.M)
switch_re = re.compile(r'^\s*switchInt\(.*?\) -> \[(.*?)\];', re.M)
assert_re = re.compile(r'^\s*assert\(.*?\) -> \[success: (bb\d+)', re.M)
decl_re = re.compile(r'^    let (?:mut )?(_\d+): (.+?);$', re.M)

def parse(name):
    body = funcs[name]
    types = {m.group(1): m.group(2) for m in decl_re.finditer(body)}
    blocks = {}
    for m in bb_re.finditer(body):
        bb, txt = m.group(1), m.group(2)
        cleanup = '(cleanup)' in m.group(0).split('\n')[0]
        ev = None; succ = []
        c = call_re.search(txt)
        if c:
            ev = ('call', c.group(1), c.group(2), c.group(3)); succ = [c.group(4)]
        else:
            d = drop_re.search(txt)
            if d: ev = ('drop', d.group(1)); succ = [d.group(2)]
            else:
                g = goto_re.search(txt)
                s = switch_re.search(txt)
                a = assert_re.search(txt)
                if g: succ = [g.group(1)]
                elif s: succ = re.findall(r'bb\d+', s.group(1))
                elif a: succ = [a.group(1)]
                elif 'return;' in txt: succ = []
        # moves of guards: _a = move _b
        moves = re.findall(r'^\s*(_\d+) = move (_\d+);', txt, re.M)
        blocks[bb] = dict(ev=ev, succ=succ, cleanup=cleanup, moves=moves)
    return types, blocks

def lockname(t):
    m = re.search(r'MutexGuard<\'_, (.+)>$', t)
    return m.group(1) if m else None

def short(n):
    return re.sub(r'<impl at [^>]+>::', '', n)

def events(name, depth=0, seen=()):
    """enumerate (held set, acquired) pairs by DFS over acyclic paths (loops cut by visited-per-path)."""
    types, blocks = parse(name)
    guards = {l: lockname(t) for l, t in types.items() if lockname(t)}
    pairs = set()
    calls = set()
    def dfs(bb, held, visited):
        if bb in visited or blocks[bb]['cleanup']: return
        visited = visited | {bb}
        b = blocks[bb]
        held = dict(held)
        for dst, s in b['moves']:
            if s in held: held[dst] = held.pop(s)
        ev = b['ev']
        if ev and ev[0] == 'call':
            dst, callee, args = ev[1], ev[2], ev[3]
            m = re.match(r'std::sync::Mutex::<(.+)>::lock$', callee)
            if m:
                lk = m.group(1)
                for h in set(held.values()): pairs.add((h, lk, short(name)))
                held['pending:' + dst] = lk   # LockResult local
            elif 'unwrap' in callee and re.search(r'move (_\d+)', args):
                s = re.search(r'move (_\d+)', args).group(1)
                if 'pending:' + s in held: held[dst] = held.pop('pending:' + s)
            else:
                calls.add(callee)
                # inline crate-local callees by name match
                for fn in funcs:
                    if short(fn).endswith('::' + callee.split('::<')[0].split('::')[-1]) and callee.split('::')[0] in fn and depth < 3 and fn not in seen and not callee.startswith('std::') and not callee.startswith('<'):
                        sub_pairs = events(fn, depth + 1, seen + (name,))
                        for (h2, l2, w) in sub_pairs: pairs.add((h2, l2, w))
                        for h in set(held.values()):
                            for (_, l2, w) in sub_pairs: pairs.add((h, l2, short(name) + '>' + w))
                            for l2 in first_locks.get(fn, ()): pairs.add((h, l2, short(name) + '>' + short(fn)))
                        break
        elif ev and ev[0] == 'drop':
            held.pop(ev[1], None)
        for s in b['succ']: dfs(s, held, visited)
    dfs('bb0', {}, frozenset())
    return pairs

first_locks = {}
def all_locks(fn):
    return set(re.findall(r'std::sync::Mutex::<(.+?)>::lock\(', funcs[fn]))
for fn in funcs: first_locks[fn] = all_locks(fn)

targets = [f for f in funcs if re.search(r'gatekeeper::<impl.*>::(add_update_user|add_update_appointment|delete_appointments)$', f)]
for t in targets:
    print('==', short(t))
    for p in sorted(events(t)): print('   holds', p[0][:40], '-> wants', p[1][:40], ' in', p[2])
