//! Vec-backed association list with the subset of the std HashMap/HashSet API used by teos.
//! Semantics = finite map / finite set; iteration order = insertion order.
use std::borrow::Borrow;
use std::fmt;

#[derive(Clone)]
pub struct HashMap<K, V> {
    e: Vec<(K, V)>,
}

impl<K: fmt::Debug, V: fmt::Debug> fmt::Debug for HashMap<K, V> {
    fn fmt(&self, f: &mut fmt::Formatter<'_>) -> fmt::Result {
        write!(f, "HashMap(len={})", self.e.len())
    }
}

impl<K: Eq, V> Default for HashMap<K, V> {
    fn default() -> Self {
        Self::new()
    }
}

impl<K: Eq, V> HashMap<K, V> {
    pub fn new() -> Self {
        HashMap { e: Vec::new() }
    }
    pub fn with_capacity(_n: usize) -> Self {
        Self::new()
    }
    fn pos<Q: ?Sized + Eq>(&self, k: &Q) -> Option<usize>
    where
        K: Borrow<Q>,
    {
        let mut i = 0;
        while i < self.e.len() {
            if self.e[i].0.borrow() == k {
                return Some(i);
            }
            i += 1;
        }
        None
    }
    pub fn len(&self) -> usize {
        self.e.len()
    }
    pub fn is_empty(&self) -> bool {
        self.e.is_empty()
    }
    pub fn get<Q: ?Sized + Eq>(&self, k: &Q) -> Option<&V>
    where
        K: Borrow<Q>,
    {
        match self.pos(k) {
            Some(i) => Some(&self.e[i].1),
            None => None,
        }
    }
    pub fn get_mut<Q: ?Sized + Eq>(&mut self, k: &Q) -> Option<&mut V>
    where
        K: Borrow<Q>,
    {
        match self.pos(k) {
            Some(i) => Some(&mut self.e[i].1),
            None => None,
        }
    }
    pub fn contains_key<Q: ?Sized + Eq>(&self, k: &Q) -> bool
    where
        K: Borrow<Q>,
    {
        self.pos(k).is_some()
    }
    pub fn insert(&mut self, k: K, v: V) -> Option<V> {
        match self.pos(&k) {
            Some(i) => Some(std::mem::replace(&mut self.e[i].1, v)),
            None => {
                self.e.push((k, v));
                None
            }
        }
    }
    pub fn remove<Q: ?Sized + Eq>(&mut self, k: &Q) -> Option<V>
    where
        K: Borrow<Q>,
    {
        match self.pos(k) {
            Some(i) => Some(self.e.remove(i).1),
            None => None,
        }
    }
    pub fn retain<F: FnMut(&K, &mut V) -> bool>(&mut self, mut f: F) {
        let mut i = 0;
        while i < self.e.len() {
            let keep = {
                let (k, v) = &mut self.e[i];
                f(k, v)
            };
            if keep {
                i += 1;
            } else {
                self.e.remove(i);
            }
        }
    }
    pub fn iter(&self) -> impl Iterator<Item = (&K, &V)> {
        self.e.iter().map(|(k, v)| (k, v))
    }
    pub fn keys(&self) -> Keys<'_, K, V> {
        Keys { it: self.e.iter() }
    }
    pub fn values(&self) -> impl Iterator<Item = &V> {
        self.e.iter().map(|(_, v)| v)
    }
}

impl<K: Eq, V: PartialEq> PartialEq for HashMap<K, V> {
    fn eq(&self, o: &Self) -> bool {
        if self.len() != o.len() {
            return false;
        }
        self.e.iter().all(|(k, v)| o.get(k) == Some(v))
    }
}
impl<K: Eq, V: Eq> Eq for HashMap<K, V> {}

impl<K: Eq, V> FromIterator<(K, V)> for HashMap<K, V> {
    fn from_iter<I: IntoIterator<Item = (K, V)>>(it: I) -> Self {
        let mut m = HashMap::new();
        for (k, v) in it {
            m.insert(k, v);
        }
        m
    }
}
impl<K: Eq, V> IntoIterator for HashMap<K, V> {
    type Item = (K, V);
    type IntoIter = std::vec::IntoIter<(K, V)>;
    fn into_iter(self) -> Self::IntoIter {
        self.e.into_iter()
    }
}
impl<K: Eq + Borrow<Q>, Q: ?Sized + Eq, V> std::ops::Index<&Q> for HashMap<K, V> {
    type Output = V;
    fn index(&self, k: &Q) -> &V {
        self.get(k).expect("no entry found for key")
    }
}

#[derive(Clone, Debug)]
pub struct HashSet<T> {
    e: Vec<T>,
}
impl<T: Eq> Default for HashSet<T> {
    fn default() -> Self {
        Self::new()
    }
}
impl<T: Eq> HashSet<T> {
    pub fn new() -> Self {
        HashSet { e: Vec::new() }
    }
    pub fn len(&self) -> usize {
        self.e.len()
    }
    pub fn is_empty(&self) -> bool {
        self.e.is_empty()
    }
    pub fn contains(&self, t: &T) -> bool {
        self.e.iter().any(|x| x == t)
    }
    pub fn insert(&mut self, t: T) -> bool {
        if self.contains(&t) {
            false
        } else {
            self.e.push(t);
            true
        }
    }
    pub fn remove(&mut self, t: &T) -> bool {
        match self.e.iter().position(|x| x == t) {
            Some(i) => {
                self.e.remove(i);
                true
            }
            None => false,
        }
    }
    pub fn drain(&mut self) -> std::vec::IntoIter<T> {
        std::mem::take(&mut self.e).into_iter()
    }
    pub fn iter(&self) -> std::slice::Iter<'_, T> {
        self.e.iter()
    }
}
impl<T: Eq> Extend<T> for HashSet<T> {
    fn extend<I: IntoIterator<Item = T>>(&mut self, it: I) {
        for t in it {
            self.insert(t);
        }
    }
}
impl<T: Eq> FromIterator<T> for HashSet<T> {
    fn from_iter<I: IntoIterator<Item = T>>(it: I) -> Self {
        let mut s = HashSet::new();
        s.extend(it);
        s
    }
}
impl<T: Eq> PartialEq for HashSet<T> {
    fn eq(&self, o: &Self) -> bool {
        self.len() == o.len() && self.e.iter().all(|x| o.contains(x))
    }
}
impl<T: Eq> Eq for HashSet<T> {}

pub struct Keys<'a, K, V> {
    it: std::slice::Iter<'a, (K, V)>,
}
impl<'a, K, V> Iterator for Keys<'a, K, V> {
    type Item = &'a K;
    fn next(&mut self) -> Option<&'a K> {
        self.it.next().map(|(k, _)| k)
    }
}
impl<'a, K, V> fmt::Debug for Keys<'a, K, V> {
    fn fmt(&self, f: &mut fmt::Formatter<'_>) -> fmt::Result {
        write!(f, "Keys")
    }
}
