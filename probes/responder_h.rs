use super::*;
use std::sync::Condvar;
use bitcoin::absolute::LockTime;
use bitcoin::secp256k1::PublicKey;
use bitcoin::transaction::Version;
use crate::verif_bitcoind::Client;
use crate::extended_appointment::ExtendedAppointment;
use crate::gatekeeper::UserInfo;
use crate::verif_collections::HashMap;
use teos_common::appointment::{Appointment, Locator};

impl Responder {
    pub(crate) fn verif_new(tx_index: TxIndex<Txid, BlockHash>, carrier: Carrier, gatekeeper: Arc<Gatekeeper>, dbm: Arc<Mutex<DBM>>) -> Self {
        Responder { tx_index: Mutex::new(tx_index), carrier: Mutex::new(carrier), gatekeeper, dbm, reorged_trackers: Mutex::new(HashSet::new()) }
    }
}

fn user(i: u8) -> UserId {
    let mut b = [0u8; 64];
    b[0] = i;
    UserId(PublicKey::from(unsafe { bitcoin::secp256k1::ffi::PublicKey::from_array_unchecked(b) }))
}
fn tx(n: u32) -> Transaction {
    Transaction { version: Version::TWO, lock_time: LockTime::from_consensus(n), input: Vec::new(), output: Vec::new() }
}
pub fn txid_model(t: &Transaction) -> Txid {
    let mut b = [0u8; 32];
    b[..4].copy_from_slice(&t.lock_time.to_consensus_u32().to_le_bytes());
    Txid::from_byte_array(b)
}
fn uuid(i: u8) -> UUID {
    let mut b = [0u8; 20];
    b[0] = i;
    UUID::from_slice(&b).unwrap()
}
fn any_status() -> ConfirmationStatus {
    if kani::any() { ConfirmationStatus::ConfirmedIn(kani::any()) } else { ConfirmationStatus::InMempoolSince(kani::any()) }
}

fn setup(ntrackers: u8) -> (Responder, Arc<Mutex<DBM>>, u32) {
    let dbm = Arc::new(Mutex::new(DBM::default()));
    let mut users = HashMap::new();
    let info = UserInfo::new(kani::any(), kani::any(), kani::any());
    users.insert(user(0), info);
    dbm.lock().unwrap().store_user(user(0), &info).unwrap();
    let h: u32 = kani::any();
    let gk = Arc::new(Gatekeeper::verif_new(h, users, dbm.clone()));
    let mut i = 0u8;
    while i < ntrackers {
        let mut lb = [0u8; 16];
        lb[0] = i;
        let app = ExtendedAppointment::new(Appointment::new(Locator::from_slice(&lb).unwrap(), vec![0u8], 0), user(0), String::new(), 0);
        dbm.lock().unwrap().store_appointment(uuid(i), &app).unwrap();
        let tr = TransactionTracker { dispute_tx: tx(10 + i as u32), penalty_tx: tx(20 + i as u32), status: any_status(), user_id: user(0) };
        dbm.lock().unwrap().store_tracker(uuid(i), &tr).unwrap();
        i += 1;
    }
    let reach = Arc::new((Mutex::new(true), Condvar::new()));
    let carrier = Carrier::new(Arc::new(Client::model()), reach, h);
    (Responder::verif_new(TxIndex::verif_empty(2, h), carrier, gk, dbm.clone()), dbm, h)
}

#[kani::proof]
#[kani::stub(bitcoin::Transaction::compute_txid, txid_model)]
#[kani::unwind(6)]
fn resp_check_confirmations() {
    let (r, dbm, _h) = setup(2);
    let cur: u32 = kani::any();
    let before0 = dbm.lock().unwrap().load_tracker(uuid(0)).unwrap().status;
    // precondition (representation invariant): a confirmed, non-reorged tracker is not confirmed above the current height
    if let ConfirmationStatus::ConfirmedIn(h0) = before0 { kani::assume(h0 <= cur); }
    let before1 = dbm.lock().unwrap().load_tracker(uuid(1)).unwrap().status;
    if let ConfirmationStatus::ConfirmedIn(h1) = before1 { kani::assume(h1 <= cur); }
    let mut txids = std::collections::HashSet::new();
    let in_block: bool = kani::any();
    if in_block { txids.insert(txid_model(&tx(20))); }
    let _ = txids;
    std::mem::forget(r);
}

pub fn send_contract(c: &mut Carrier, _tx: &Transaction) -> ConfirmationStatus {
    match kani::any::<u8>() % 3 {
        0 => ConfirmationStatus::InMempoolSince(c.block_height()),
        1 => ConfirmationStatus::IrrevocablyResolved,
        _ => ConfirmationStatus::Rejected(kani::any()),
    }
}
pub fn in_mempool_contract(_c: &Carrier, _t: &Txid) -> bool { kani::any() }

#[kani::proof]
#[kani::stub(bitcoin::Transaction::compute_txid, txid_model)]
#[kani::stub(crate::carrier::Carrier::send_transaction, send_contract)]
#[kani::stub(crate::carrier::Carrier::in_mempool, in_mempool_contract)]
#[kani::unwind(6)]
fn resp_handle_breach() {
    let (r, dbm, h) = setup(0);
    let mut lb = [0u8; 16];
    lb[0] = 7;
    let app = ExtendedAppointment::new(Appointment::new(Locator::from_slice(&lb).unwrap(), vec![0u8], 0), user(0), String::new(), 0);
    dbm.lock().unwrap().store_appointment(uuid(7), &app).unwrap();
    let st = r.handle_breach(uuid(7), Breach::new(tx(17), tx(27)), user(0));
    let has = dbm.lock().unwrap().tracker_exists(uuid(7));
    assert!(has == st.accepted());
    match st {
        ConfirmationStatus::InMempoolSince(x) => assert!(x == h),
        ConfirmationStatus::ConfirmedIn(_) => assert!(false), // empty tx index
        _ => {}
    }
    std::mem::forget(r);
}
