use super::*;
use bitcoin::block::Version;
use bitcoin::hashes::Hash;
use bitcoin::{CompactTarget, TxMerkleNode};

#[derive(Clone, Copy, PartialEq, Eq, Hash, Debug)]
struct K8(u8);
impl Key for K8 {
    fn from_txid(t: Txid) -> Self {
        K8(t.to_byte_array()[0])
    }
}
#[derive(Clone, Copy, PartialEq, Eq, Debug)]
struct V8(u8);
impl Value for V8 {
    fn get_type() -> Type {
        Type::BlockHash
    }
    fn from_data(_d: Data) -> Self {
        V8(0)
    }
}

pub(crate) fn hdr(n: u32) -> Header {
    Header {
        version: Version::from_consensus(1),
        prev_blockhash: BlockHash::all_zeros(),
        merkle_root: TxMerkleNode::all_zeros(),
        time: 0,
        bits: CompactTarget::from_consensus(0),
        nonce: n,
    }
}

pub fn block_hash_model(h: &Header) -> BlockHash {
    let mut b = [0u8; 32];
    b[..4].copy_from_slice(&h.nonce.to_le_bytes());
    BlockHash::from_byte_array(b)
}

const NKEYS: u8 = 2;

fn any_block_data(tag: u8, bits: u8) -> HashMap<K8, V8> {
    let mut m = HashMap::new();
    let mut i = 0;
    while i < NKEYS {
        if bits & (1 << i) != 0 {
            m.insert(K8(i), V8(tag));
        }
        i += 1;
    }
    m
}


fn check_against(idx: &TxIndex<K8, V8>, model: &[(u32, u8); 4], mlen: usize, size: usize, tip_true: u32) {
    let lo = if mlen > size { mlen - size } else { 0 };
    let mut i = 0;
    while i < NKEYS {
        let kk = K8(i);
        let got = idx.get(&kk);
        let mut expect: Option<u32> = None;
        let mut j = lo;
        while j < mlen { if model[j].1 & (1 << i) != 0 { expect = Some(model[j].0); } j += 1; }
        match (got, expect) {
            (Some(v), Some(n)) => assert!(v.0 == n as u8),
            (None, None) => {}
            _ => assert!(false),
        }
        i += 1;
    }
    // heights: block model[j] has true height tip_true - (mlen-1-j)
    let mut j = lo;
    while j < mlen {
        let bh = block_hash_model(&hdr(model[j].0));
        let h = idx.get_height(&bh);
        assert!(h == Some((tip_true as usize) - (mlen - 1 - j)));
        j += 1;
    }
}

fn any_bits(model: &[(u32, u8); 4], mlen: usize) -> u8 {
    let bits: u8 = kani::any();
    kani::assume(bits < (1 << NKEYS));
    let mut j = 0;
    while j < mlen { kani::assume(model[j].1 & bits == 0); j += 1; }
    bits
}

#[kani::proof]
#[kani::stub(bitcoin::block::Header::block_hash, block_hash_model)]
#[kani::unwind(6)]
fn txindex_step_d1_connect() {
    let size = 2usize;
    let tip0: u32 = 10;
    let mut idx: TxIndex<K8, V8> = TxIndex { index: HashMap::new(), blocks: VecDeque::new(), tx_in_block: HashMap::new(), tip: tip0, size };
    let mut model: [(u32, u8); 4] = [(0, 0); 4];
    let mut mlen = 0usize;
    // canonical constructor: `size` bootstrap updates (tip0 is the height of the last one)
    let mut n = 1u32;
    while (n as usize) <= size {
        let bits = any_bits(&model, mlen);
        idx.update(hdr(n), &any_block_data(n as u8, bits));
        model[mlen] = (n, bits); mlen += 1; n += 1;
    }
    check_against(&idx, &model, mlen, size, tip0);
    // one disconnect
    idx.remove_disconnected_block(&block_hash_model(&hdr(model[mlen-1].0)));
    mlen -= 1;
    check_against(&idx, &model, mlen, size, tip0 - 1);
    std::mem::forget(idx);
}

impl<K: Key + Copy, V: Value + Clone> TxIndex<K, V> {
    pub(crate) fn verif_empty(size: usize, tip: u32) -> Self {
        TxIndex { index: HashMap::new(), blocks: VecDeque::new(), tx_in_block: HashMap::new(), tip, size }
    }
}
