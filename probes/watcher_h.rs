use super::*;
use std::sync::Condvar;
use bitcoin::absolute::LockTime;
use bitcoin::hashes::Hash;
use bitcoin::secp256k1::{Error as SecpError, PublicKey};
use bitcoin::transaction::Version;
use bitcoin::Txid;
use crate::carrier::Carrier;
use crate::verif_bitcoind::Client;
use teos_common::cryptography::DecryptingError;

fn user(i: u8) -> UserId {
    let mut b = [0u8; 64];
    b[0] = i;
    UserId(PublicKey::from(unsafe { bitcoin::secp256k1::ffi::PublicKey::from_array_unchecked(b) }))
}
fn tx(n: u32) -> Transaction {
    Transaction { version: Version::TWO, lock_time: LockTime::from_consensus(n), input: Vec::new(), output: Vec::new() }
}
pub fn txid_model(t: &Transaction) -> Txid {
    let mut b = [0u8; 32];
    b[..4].copy_from_slice(&t.lock_time.to_consensus_u32().to_le_bytes());
    Txid::from_byte_array(b)
}
pub fn uuid_model(l: Locator, u: UserId) -> UUID {
    let mut b = [0u8; 20];
    b[0] = l.to_vec()[0];
    b[1] = u.0.serialize()[1];
    UUID::from_slice(&b).unwrap()
}
pub fn recover_model(_m: &[u8], _s: &str) -> Result<PublicKey, SecpError> {
    if kani::any() { Ok(user(if kani::any() { 0 } else { 1 }).0) } else { Err(SecpError::InvalidSignature) }
}
pub fn sign_model(_m: &[u8], _sk: &SecretKey) -> String {
    String::new()
}
pub fn decrypt_model(_b: &[u8], _t: &Txid) -> Result<Transaction, DecryptingError> {
    if kani::any() { Ok(tx(1000)) } else { Err(DecryptingError::Encode(bitcoin::consensus::encode::Error::ParseFailed("x"))) }
}

#[kani::proof]
#[kani::stub(bitcoin::Transaction::compute_txid, txid_model)]
#[kani::stub(bitcoin::block::Header::block_hash, crate::tx_index::verif_harness::block_hash_model)]
#[kani::stub(crate::extended_appointment::UUID::new, uuid_model)]
#[kani::stub(teos_common::cryptography::recover_pk, recover_model)]
#[kani::stub(teos_common::cryptography::sign, sign_model)]
#[kani::stub(teos_common::cryptography::decrypt, decrypt_model)]
#[kani::unwind(6)]
fn watcher_add_appointment_step() {
    let dbm = Arc::new(Mutex::new(DBM::default()));
    let mut users = HashMap::new();
    let info = UserInfo::new(kani::any(), kani::any(), kani::any());
    users.insert(user(0), info);
    dbm.lock().unwrap().store_user(user(0), &info).unwrap();
    let h: u32 = kani::any();
    let gk = Arc::new(Gatekeeper::verif_new(h, users, dbm.clone()));
    let reach = Arc::new((Mutex::new(true), Condvar::new()));
    let carrier = Carrier::new(Arc::new(Client::model()), reach, h);
    let responder = Arc::new(Responder::verif_new(TxIndex::verif_empty(2, h), carrier, gk.clone(), dbm.clone()));
    let mut cache: TxIndex<Locator, Transaction> = TxIndex::verif_empty(2, h);
    let in_cache: bool = kani::any();
    if in_cache {
        let mut m = HashMap::new();
        let d = tx(5);
        m.insert(Locator::new(txid_model(&d)), d);
        cache.update(crate::tx_index::verif_harness::hdr(1), &m);
    }
    let w = Watcher {
        locator_cache: Mutex::new(cache), responder, gatekeeper: gk.clone(), last_known_block_height: AtomicU32::new(h),
        signing_key: unsafe { std::mem::transmute::<[u8; 32], SecretKey>([1u8; 32]) }, tower_id: user(9), dbm: dbm.clone(),
    };
    let blob_len: usize = 1;
    let app = Appointment::new(Locator::new(txid_model(&tx(5))), vec![0u8; blob_len], kani::any());
    let before = info.available_slots;
    let r = w.add_appointment(app, String::new());
    let after = gk.verif_slots(user(0));
    match r {
        Ok((receipt, slots, _exp)) => {
            assert!(receipt.start_block() == h);
            assert!(slots == after);
            assert!(h < info.subscription_expiry);
            assert!(before - after == if blob_len == 0 { 0 } else { 1 });
        }
        Err(_) => {
            assert!(after == before);
        }
    }
    std::mem::forget(w);
}
