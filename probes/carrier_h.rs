use super::*;
use bitcoin::absolute::LockTime;
use bitcoin::hashes::Hash;
use bitcoin::transaction::Version;

fn tx(n: u32) -> Transaction {
    Transaction { version: Version::TWO, lock_time: LockTime::from_consensus(n), input: Vec::new(), output: Vec::new() }
}
pub fn txid_model(t: &Transaction) -> Txid {
    let mut b = [0u8; 32];
    b[..4].copy_from_slice(&t.lock_time.to_consensus_u32().to_le_bytes());
    Txid::from_byte_array(b)
}

#[kani::proof]
#[kani::stub(bitcoin::Transaction::compute_txid, txid_model)]
#[kani::unwind(6)]
fn carrier_send_memo() {
    let cli = Arc::new(BitcoindClient::model());
    let reach = Arc::new((Mutex::new(true), Condvar::new()));
    let h: u32 = kani::any();
    let mut c = Carrier::new(cli.clone(), reach, h);
    let t = tx(7);
    let r1 = c.send_transaction(&t);
    let n1 = cli.sent.borrow().1;
    let r2 = c.send_transaction(&t);
    let n2 = cli.sent.borrow().1;
    assert!(n1 == 1 && n2 == 1);
    assert!(r1 == r2);
    match r1 {
        ConfirmationStatus::InMempoolSince(x) => assert!(x == h),
        ConfirmationStatus::ConfirmedIn(_) => assert!(false),
        _ => {}
    }
    std::mem::forget(c);
}
