use super::*;
use bitcoin::secp256k1::PublicKey;
use teos_common::appointment::Appointment;

fn user(i: u8) -> UserId {
    let mut b = [0u8; 64];
    b[0] = i;
    UserId(PublicKey::from(unsafe { bitcoin::secp256k1::ffi::PublicKey::from_array_unchecked(b) }))
}

fn uuid_model(l: Locator, u: UserId) -> UUID {
    let mut b = [0u8; 20];
    b[0] = l.to_vec()[0];
    b[1] = u.0.serialize()[1];
    UUID::from_slice(&b).unwrap()
}

fn any_gk(nusers: usize) -> Gatekeeper {
    let dbm = DBM::default();
    let mut users = HashMap::new();
    let mut i = 0;
    while i < nusers {
        let info = UserInfo::new(kani::any(), kani::any(), kani::any());
        users.insert(user(i as u8), info);
        dbm.store_user(user(i as u8), &info).unwrap();
        i += 1;
    }
    Gatekeeper {
        last_known_block_height: AtomicU32::new(kani::any()),
        subscription_slots: kani::any(),
        subscription_duration: kani::any(),
        expiry_delta: kani::any(),
        registered_users: Mutex::new(users),
        dbm: Arc::new(Mutex::new(dbm)),
    }
}

#[kani::proof]
#[kani::unwind(6)]
fn gk_outdated_iff() {
    let gk = any_gk(1);
    let h: u32 = kani::any();
    let info = *gk.registered_users.lock().unwrap().get(&user(0)).unwrap();
    let out = gk.get_outdated_users(h);
    let expect = (h as u64) >= info.subscription_expiry as u64 + gk.expiry_delta as u64;
    assert_eq!(out.len() == 1, expect);
    std::mem::forget(gk);
}

#[kani::proof]
#[kani::unwind(6)]
fn gk_register_new() {
    let gk = any_gk(1);
    let h = gk.last_known_block_height.load(Ordering::Acquire);
    let r = gk.add_update_user(user(1));
    if let Ok(receipt) = r {
        assert_eq!(receipt.subscription_start(), h);
        assert_eq!(receipt.subscription_expiry() as u64, h as u64 + gk.subscription_duration as u64);
    }
    std::mem::forget(gk);
}

impl Gatekeeper {
    pub(crate) fn verif_new(h: u32, users: HashMap<UserId, UserInfo>, dbm: Arc<Mutex<DBM>>) -> Self {
        Gatekeeper { last_known_block_height: AtomicU32::new(h), subscription_slots: kani::any(), subscription_duration: kani::any(), expiry_delta: kani::any(), registered_users: Mutex::new(users), dbm }
    }
    pub(crate) fn verif_slots(&self, u: UserId) -> u32 {
        self.registered_users.lock().unwrap().get(&u).unwrap().available_slots
    }
}
