"""Engine M, part 1: parse rustc's textual MIR (-Zunpretty=mir) into per-function CFGs with call/drop/lock events.

Nothing here knows about rust-teos; scenario-specific knowledge (which entry points, which effect callees) lives in
tools/mir_engine.py.
"""
import os
import re
import subprocess
import time

from common import CACHE, REPO, cargo_env

MIR_DIR = os.path.join(CACHE, 'mir')
MIR_TARGET = os.environ.get('VERIF_MIR_TARGET') or os.path.join(CACHE, 'mir-target')
if os.environ.get('VERIF_MIR_DIR'):
    MIR_DIR = os.environ['VERIF_MIR_DIR']


def dump_mir(crate, kind='lib', name=None, timeout=2400):
    """Regenerates the MIR dump of a crate target from /repo's current working tree. Returns (path, seconds, error)."""
    os.makedirs(MIR_DIR, exist_ok=True)
    out = os.path.join(MIR_DIR, '%s-%s.mir' % (crate, name or kind))
    src = os.path.join(REPO, crate)
    sel = ['--lib'] if kind == 'lib' else ['--bin', name]
    # make sure rustc really re-runs (cargo skips it when nothing changed and would print nothing)
    stamp = os.path.join(src, 'src', 'lib.rs' if kind == 'lib' else 'main.rs')
    cmd = ['cargo', '+nightly', 'rustc'] + sel + ['--target-dir', MIR_TARGET, '--', '-Zunpretty=mir', '-C', 'overflow-checks=on']
    t0 = time.time()
    env = cargo_env({'CARGO_INCREMENTAL': '0'})
    # touching a file in /repo is not allowed to leave traces: forget cargo's fingerprint of this one crate instead, so that
    # rustc runs again for it (and only for it: the dependencies stay cached)
    import glob
    import shutil
    for d in glob.glob(os.path.join(MIR_TARGET, 'debug', '.fingerprint', '%s-*' % crate)) + \
            glob.glob(os.path.join(MIR_TARGET, 'debug', '.fingerprint', '%s-*' % crate.replace('-', '_'))):
        shutil.rmtree(d, ignore_errors=True)
    env['RUSTFLAGS'] = '--cfg verif_mir'
    try:
        p = subprocess.run(cmd, cwd=src, env=env, stdout=subprocess.PIPE, stderr=subprocess.PIPE, timeout=timeout)
    except subprocess.TimeoutExpired:
        return None, time.time() - t0, 'timeout'
    if p.returncode != 0 or len(p.stdout) < 1000:
        return None, time.time() - t0, p.stderr.decode(errors='replace')[-3000:]
    with open(out, 'wb') as fh:
        fh.write(p.stdout)
    return out, time.time() - t0, None


class Block:
    __slots__ = ('id', 'stmts', 'term', 'cleanup')

    def __init__(self, bid, cleanup):
        self.id = bid
        self.stmts = []
        self.term = None
        self.cleanup = cleanup


class Func:
    def __init__(self, name, header):
        self.name = name
        self.header = header
        self.blocks = {}
        self.locals = {}   # _n -> type string
        self.params = []   # [(local, type)]
        self.line = 0


FN_RE = re.compile(r'^fn (.+?)\((.*)\) -> (.+?) \{$|^fn (.+?)\((.*)\) \{$')
BB_RE = re.compile(r'^    (bb\d+)( \(cleanup\))?: \{$')
LET_RE = re.compile(r'^    let (?:mut )?(_\d+): (.+);$')
CALL_RE = re.compile(r'^(?:(.+?) = )?(.+?)\((.*)\) -> \[return: (bb\d+), unwind(?:: (bb\d+)| continue| unreachable| terminate.*?)\];$')
CALL_NORET_RE = re.compile(r'^(?:(.+?) = )?(.+?)\((.*)\) -> unwind(?:: (bb\d+)| continue| unreachable| terminate.*?);$')
DROP_RE = re.compile(r'^drop\((.+?)\) -> \[return: (bb\d+), unwind(?:: (bb\d+)| continue| unreachable| terminate.*?)\];$')
GOTO_RE = re.compile(r'^goto -> (bb\d+);$')
SWITCH_RE = re.compile(r'^switchInt\((.+?)\) -> \[(.+)\];$')
ASSERT_RE = re.compile(r'^assert\((.+)\) -> \[success: (bb\d+), unwind(?:: (bb\d+)| continue| unreachable| terminate.*?)\];$')
FALSE_RE = re.compile(r'^false(?:Edge|Unwind) -> \[real: (bb\d+), (?:imaginary|unwind): (bb\d+)\];$')
YIELD_RE = re.compile(r'^(?:(.+?) = )?yield\((.*)\) -> \[resume: (bb\d+), drop: (bb\d+)\];$')


def split_args(s):
    out, depth, cur = [], 0, ''
    for ch in s:
        if ch in '([{<':
            depth += 1
        elif ch in ')]}>':
            depth -= 1
        if ch == ',' and depth == 0:
            out.append(cur.strip())
            cur = ''
        else:
            cur += ch
    if cur.strip():
        out.append(cur.strip())
    return out


def parse_term(line):
    """-> dict(kind=..., ...)"""
    m = DROP_RE.match(line)
    if m:
        return {'kind': 'drop', 'place': m.group(1), 'next': m.group(2), 'unwind': m.group(3)}
    m = GOTO_RE.match(line)
    if m:
        return {'kind': 'goto', 'next': m.group(1)}
    m = SWITCH_RE.match(line)
    if m:
        targets = []
        for part in split_args(m.group(2)):
            v, bb = part.rsplit(': ', 1)
            targets.append((v, bb))
        return {'kind': 'switch', 'operand': m.group(1), 'targets': targets}
    m = ASSERT_RE.match(line)
    if m:
        return {'kind': 'assert', 'cond': m.group(1), 'next': m.group(2), 'unwind': m.group(3)}
    m = FALSE_RE.match(line)
    if m:
        return {'kind': 'goto', 'next': m.group(1)}
    m = YIELD_RE.match(line)
    if m:
        return {'kind': 'yield', 'next': m.group(3), 'drop': m.group(4)}
    if line == 'return;':
        return {'kind': 'return'}
    if line in ('resume;', 'unreachable;', 'coroutine_drop;') or line.startswith('terminate') or line.startswith('abort'):
        return {'kind': 'end', 'what': line.rstrip(';')}
    return parse_call(line)


def parse_call(line):
    """`[dest = ]callee(args) -> [return: bbN, unwind ...];` | `... -> unwind ...;` | `... -> bbN;` — the callee may itself
    contain parentheses (`{async fn body of f()}`), so the argument list is the last balanced group before ` -> `."""
    i = line.rfind(') -> ')
    if i < 0:
        return None
    head, tail = line[:i + 1], line[i + 5:]
    depth = 0
    j = len(head) - 1
    while j >= 0:
        ch = head[j]
        if ch == ')':
            depth += 1
        elif ch == '(':
            depth -= 1
            if depth == 0:
                break
        j -= 1
    if j < 0:
        return None
    args = split_args(head[j + 1:-1])
    pre = head[:j]
    dest = None
    m = re.match(r'^(.+?) = (.+)$', pre)
    if m and re.match(r'^[\w\(\)\*\.\s:#\[\]<>{},&\'-]+$', m.group(1)) and not m.group(1).startswith('<'):
        dest, callee = m.group(1), m.group(2)
    else:
        callee = pre
    nxt = unwind = None
    m = re.match(r'^\[return: (bb\d+), unwind(?:: (bb\d+)| continue| unreachable| terminate.*?)\];$', tail)
    if m:
        nxt, unwind = m.group(1), m.group(2)
    else:
        m = re.match(r'^unwind(?:: (bb\d+)| continue| unreachable| terminate.*?);$', tail)
        if m:
            unwind = m.group(1)
        else:
            m = re.match(r'^(bb\d+);$', tail)
            if m:
                unwind = m.group(1)
            else:
                return None
    return {'kind': 'call', 'dest': dest, 'callee': callee.strip(), 'args': args, 'next': nxt, 'unwind': unwind}



def parse_mir(path):
    funcs = {}
    cur = None
    blk = None
    pending = None
    with open(path, errors='replace') as fh:
        for ln, raw in enumerate(fh, 1):
            line = raw.rstrip('\n')
            if line.startswith('fn '):
                m = FN_RE.match(line)
                if not m:
                    cur = None
                    continue
                name = m.group(1) or m.group(4)
                params = m.group(2) if m.group(1) else m.group(5)
                cur = Func(name, line)
                cur.line = ln
                for p in split_args(params or ''):
                    if ': ' in p:
                        a, t = p.split(': ', 1)
                        cur.params.append((a.strip(), t.strip()))
                        cur.locals[a.strip()] = t.strip()
                # later definitions with the same name (promoted consts etc. have different headers) do not overwrite
                if name not in funcs:
                    funcs[name] = cur
                blk = None
                continue
            if cur is None:
                continue
            if line == '}':
                cur = None
                blk = None
                continue
            m = LET_RE.match(line)
            if m and blk is None:
                cur.locals[m.group(1)] = m.group(2)
                continue
            m = BB_RE.match(line)
            if m:
                blk = Block(m.group(1), bool(m.group(2)))
                cur.blocks[blk.id] = blk
                pending = None
                continue
            if blk is not None:
                s = line.strip()
                if s == '}':
                    blk = None
                    continue
                if not s or s.startswith('//') or s.startswith('scope') or s.startswith('debug '):
                    continue
                if pending is not None:
                    s = pending + ' ' + s
                    pending = None
                t = parse_term(s)
                if t is not None:
                    blk.term = t
                elif s.endswith(';'):
                    blk.stmts.append(s)
                else:
                    pending = s   # multi-line statement/terminator
    return funcs


def index_methods(funcs):
    """Call sites name inherent/trait methods as `Type::method` / `<Type as Trait>::method`; definitions are named
    `module::<impl at file:line>::method`. Index definitions by (self type, method) using the first parameter's type."""
    idx = {}
    for name, f in funcs.items():
        if '{closure' in name or '{constant' in name or '{promoted' in name:
            base = name
        else:
            base = name
        last = base.split('::')[-1]
        if f.params:
            t = f.params[0][1]
            t = re.sub(r"^&(?:'\w+ )?(?:mut )?", '', t)
            t = re.sub(r'<.*>$', '', t)
            t = t.split('::')[-1]
            idx.setdefault((t, last), []).append(name)
        idx.setdefault((None, last), []).append(name)
    return idx


def resolve_callee(callee, funcs, idx):
    """Returns the name of the crate-local definition a call site refers to, or None."""
    c = callee.strip()
    if c in funcs:
        return c
    m = re.match(r'^<(.+?) as (.+?)>::(\w+)(?:::<.*>)?$', c)
    if m:
        t = re.sub(r'<.*>$', '', m.group(1))
        t = re.sub(r"^&(?:'\w+ )?(?:mut )?", '', t).split('::')[-1]
        cands = idx.get((t, m.group(3)), [])
        cands = [x for x in cands if '{closure' not in x]
        if len(cands) == 1:
            return cands[0]
        return None
    m = re.match(r'^((?:\w+::)*)(\w+)(?:::<.*?>)?::(\w+)(?:::<.*>)?$', c)
    if m:
        t, meth = m.group(2), m.group(3)
        cands = [x for x in idx.get((t, meth), []) if '{closure' not in x]
        if len(cands) == 1:
            return cands[0]
        # free function in a module: module::func
        for name in funcs:
            if name.endswith('::' + t + '::' + meth) or name == t + '::' + meth:
                return name
    return None
