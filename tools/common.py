"""Shared helpers for the /verif driver: paths, environment, evidence, known findings."""
import hashlib
import json
import os
import subprocess
import time

VERIF = '/verif'
# Development aid (never set by a registered command): VERIF_REPO=<scratch worktree of /repo, outside /root> runs the same
# checks on a patched copy while /repo is busy; build caches, outputs and evidence then go to .cache/scratch, so that the
# evidence of /repo itself is never overwritten by such a run.
REPO = os.environ.get('VERIF_REPO') or '/repo'
_SCRATCH = os.path.realpath(REPO) != '/repo'
CACHE = os.path.join(VERIF, '.cache', 'scratch') if _SCRATCH else os.path.join(VERIF, '.cache')
VENDOR = os.path.join(VERIF, '.cache', 'vendor')
CARGO_HOME = os.path.join(VERIF, '.cache', 'cargo-home')
OUT = os.path.join(CACHE, 'out')
EVIDENCE = os.path.join(CACHE, 'evidence') if _SCRATCH else os.path.join(VERIF, 'evidence')
REPLAY = os.path.join(EVIDENCE, 'replay')
KNOWN = os.path.join(VERIF, 'known_findings.json')

CRATES = {
    'teos': {'dir': os.path.join(REPO, 'teos'), 'kani_target': os.path.join(CACHE, 'kani-teos'),
             'rustflags': '--cfg secp256k1_fuzz'},
    'teos-common': {'dir': os.path.join(REPO, 'teos-common'), 'kani_target': os.path.join(CACHE, 'kani-common'),
                    'rustflags': '--cfg secp256k1_fuzz'},
    'watchtower-plugin': {'dir': os.path.join(REPO, 'watchtower-plugin'),
                          'kani_target': os.path.join(CACHE, 'kani-plugin'),
                          'rustflags': '--cfg secp256k1_fuzz'},
}


def cargo_env(extra=None):
    env = dict(os.environ)
    env['CARGO_HOME'] = CARGO_HOME
    env['CARGO_NET_OFFLINE'] = 'true'
    env['CARGO_TERM_COLOR'] = 'never'
    # rustup proxies live in the default cargo home
    env['PATH'] = '/root/.cargo/bin:' + env.get('PATH', '')
    env.pop('RUSTUP_TOOLCHAIN', None)
    if extra:
        env.update(extra)
    return env


def ensure_dirs():
    for d in (OUT, EVIDENCE, REPLAY):
        os.makedirs(d, exist_ok=True)


def repo_fingerprint(paths=('teos/src', 'teos-common/src', 'watchtower-plugin/src')):
    h = hashlib.sha256()
    for p in paths:
        root = os.path.join(REPO, p)
        for dp, dn, fn in sorted(os.walk(root)):
            dn.sort()
            for f in sorted(fn):
                fp = os.path.join(dp, f)
                h.update(fp.encode())
                with open(fp, 'rb') as fh:
                    h.update(fh.read())
    return h.hexdigest()[:16]


def load_known():
    if not os.path.exists(KNOWN):
        return {'known': [], 'fixed': []}
    with open(KNOWN) as fh:
        return json.load(fh)


def match_known(known, prop, obligation, description, function):
    """A failing check is a known finding iff an entry of the committed file matches property,
    obligation (regex on the obligation id), check description (substring) and function (substring)."""
    import re
    for k in known.get('known', []):
        if k['property'] != prop:
            continue
        if not re.search(k.get('obligation', '.*'), obligation):
            continue
        if k.get('description', '') not in (description or ''):
            continue
        if k.get('function', '') not in (function or ''):
            continue
        return k
    return None


def write_evidence(prop, tier, seed, level, coverage, assumptions, wall_s, violations):
    ensure_dirs()
    ev = {
        'property_id': prop,
        'tier': tier,
        'seed': seed,
        'level': level,
        'coverage': coverage,
        'assumptions': assumptions,
        'wall_s': round(wall_s, 2),
        'violations': violations,
    }
    path = os.path.join(EVIDENCE, prop + '.json')
    tmp = path + '.tmp'
    with open(tmp, 'w') as fh:
        json.dump(ev, fh, indent=1, sort_keys=False)
        fh.write('\n')
    os.replace(tmp, path)
    return path


def run(cmd, cwd=None, env=None, timeout=None, log=None):
    t0 = time.time()
    try:
        p = subprocess.run(cmd, cwd=cwd, env=env, timeout=timeout, stdout=subprocess.PIPE,
                           stderr=subprocess.STDOUT, text=True, errors='replace')
        out, rc = p.stdout, p.returncode
    except subprocess.TimeoutExpired as e:
        out = (e.stdout or b'')
        if isinstance(out, bytes):
            out = out.decode(errors='replace')
        rc = 124
    if log:
        with open(log, 'w') as fh:
            fh.write(out)
    return rc, out, time.time() - t0
