#!/usr/bin/env python3
"""Regenerates /verif/MANIFEST.json from tools/registry.py (single source of truth)."""
import json
import os
import subprocess
import sys

sys.path.insert(0, os.path.dirname(os.path.abspath(__file__)))
import registry  # noqa: E402

ALL = ['C%02d' % i for i in range(1, 21)]

NOT_APPLICABLE = {
    'C03': 'crash/restart: what survives a crash is decided by sqlite\'s journal and teosd\'s main() bootstrap (binary '
           'crate, SpvClient, block download); neither is encodable by Kani or by a hand translator within reach and the '
           'DBM model has no durability semantics; no honest partial claim (DESIGN 5/C03)',
    'C15': 'HTTP robustness is a property of warp/hyper/serde_json/tonic (async runtime, I/O, >10^5 lines of dependencies): '
           'outside any solver encoding available here (DESIGN 5/C15)',
    'C17': 'cryptographic round-trips: ECDSA lives in libsecp256k1 (C, FFI, invisible to Kani) and ChaCha20-Poly1305/SHA-256 '
           'over symbolic data defeat bit-blasting; only the locator clause is decidable and is reported under C19 (DESIGN 5/C17)',
}


def main():
    hooks = subprocess.run(['git', '-C', '/repo', 'log', '--format=%h %s', '--grep', '^verif hooks'],
                           stdout=subprocess.PIPE, text=True).stdout.strip().splitlines()
    checks = []
    for pid in ALL:
        spec = registry.PROPS.get(pid)
        if not spec or not spec.get('obligations') or spec.get('disabled'):
            continue
        engines = sorted({o['engine'] for o in spec['obligations']})
        checks.append({
            'property_id': pid,
            'quick_cmd': './check %s --tier quick' % pid,
            'thorough_cmd': './check %s --tier thorough' % pid,
            'evidence_file': '/verif/evidence/%s.json' % pid,
            'replay_cmd_template': './check %s --replay {path}' % pid,
            'engine': '+'.join({'kani': 'K (Kani/CBMC)', 'mir': 'M (MIR->SMT, z3/cvc5)', 'twin': 'T (native twin run of the DBM model, validation only)'}[e] for e in engines),
            'level_claimed': {
                'category': spec.get('level', 'model_checking'),
                'text': spec.get('level_text', 'Bounded symbolic model checking of the real code: every obligation is a solver '
                                               'verdict over all inputs/pre-states within the stated bounds; nothing outside the '
                                               'bounds is claimed. ') + ' Bounds: ' + spec.get('bounds', ''),
                'design_ref': 'DESIGN.md 5/%s' % pid,
            },
            'level_note': 'Trusted base / assumptions: ' + '; '.join(spec.get('assumptions', [])) +
                          ' | Outside the claim: ' + spec.get('outside', ''),
            'technique': spec.get('technique', '') + ('' if 'twin' not in engines or 'twin' in spec.get('technique', '') else
                                                      '; the DBM model those harnesses run against is validated by a native twin run '
                                                      'against the real sqlite DBM (sampling, labelled as validation, not a solver verdict)'),
        })
    claimed = {c['property_id'] for c in checks}
    na = []
    for pid in ALL:
        if pid in claimed:
            continue
        reason = NOT_APPLICABLE.get(pid) or registry.PROPS.get(pid, {}).get('na_reason') or \
            'designed (DESIGN.md 5/%s) but the solver-based check is not built yet; nothing is claimed' % pid
        na.append({'property_id': pid, 'reason': reason})
    man = {
        'version': 1,
        'setup_cmd': './setup.sh',
        'hooks': {
            'guard': 'cfg(kani)',
            'enable': 'cargo kani sets --cfg kani; checks run `cargo kani --lib` in /repo/<crate> with CARGO_HOME=/verif/.cache/cargo-home, '
                      'RUSTFLAGS="--cfg secp256k1_fuzz" and --target-dir under /verif/.cache (nothing is written to /repo)',
            'baseline_off_cmd': 'cd /repo && cargo test --workspace --no-fail-fast --offline',
            'source_commits': hooks,
            'add_only': True,
        },
        'engines': [
            {'name': 'K', 'path': 'tools/kani_run.py + harness/** + models/**',
             'serves_properties': sorted(p for p in claimed if any(o['engine'] == 'kani' for o in registry.PROPS[p]['obligations'])),
             'kind_free_text': 'Kani 0.68 / CBMC 6.11 (cadical) over the real Rust source; harnesses are child modules pulled in by cfg(kani) hooks'},
            {'name': 'M', 'path': 'tools/mir_*.py + scenarios/**',
             'serves_properties': sorted(p for p in claimed if any(o['engine'] == 'mir' for o in registry.PROPS[p]['obligations'])),
             'kind_free_text': 'MIR (cargo +nightly rustc -Zunpretty=mir on the current tree) -> SMT-LIB2 -> z3, cvc5 cross-check'},
        ],
        'checks': checks,
        'not_applicable': na,
        'notes': 'Exit codes of ./check: 0 held, 1 violation (VIOLATION line), 2 inconclusive (time-out / encoder could not '
                 'read the tree; never reported as success). known_findings.json lists recorded defects and fixes.',
    }
    with open('/verif/MANIFEST.json', 'w') as fh:
        json.dump(man, fh, indent=1)
        fh.write('\n')
    print('MANIFEST: %d checks, %d not_applicable' % (len(checks), len(na)))


if __name__ == '__main__':
    main()
