#!/bin/bash
# dev helper: like try_seed.sh, but applies the seed to a scratch worktree of /repo (under /tmp: cargo must not pick up
# /root/.cargo/config.toml) and runs the check there with VERIF_REPO, so /repo and its evidence stay untouched.
# usage: try_seed_scratch.sh <seed> <prop> [--only regex]
S=$1; P=$2; shift 2
W=/tmp/verif-scratch/$S
git -C /repo worktree remove --force $W 2>/dev/null; git -C /repo worktree prune
mkdir -p /tmp/verif-scratch && git -C /repo worktree add -q --detach $W HEAD || exit 3
git -C $W apply /verif/seeded/$S/patch.diff || { echo "patch does not apply"; exit 3; }
cd /verif && VERIF_REPO=$W ./check $P --tier ${TIER:-quick} "$@" > /verif/.cache/out/scratch-$S-$P.txt 2>&1
rc=$?
git -C /repo worktree remove --force $W; git -C /repo worktree prune
echo "$S vs $P (scratch): rc=$rc"; grep -E "^VIOLATION|^INCONCLUSIVE|^BUILD|tier=" /verif/.cache/out/scratch-$S-$P.txt | cut -c1-220
