"""Engine K: run a set of Kani harnesses on /repo's current working tree and classify every result.

One `cargo kani` invocation per (crate, harness set); harnesses run in parallel (-j).  The verdicts are read
from Kani's JSON export (per-check status, CBMC statistics), never from the exit code alone.
"""
import json
import os
import resource
import signal
import subprocess
import time

from common import CRATES, OUT, cargo_env, ensure_dirs

MEM_LIMIT = 14 * 1024 ** 3


def _limits():
    os.setsid()
    resource.setrlimit(resource.RLIMIT_AS, (MEM_LIMIT, MEM_LIMIT))


def run_kani(crate, harnesses, tag, jobs=8, harness_timeout=600, overall_timeout=3000, extra=None,
             playback=False, mem_checks=False, _nested=False):
    """harnesses: fully qualified harness names. Returns (results, meta)."""
    ensure_dirs()
    c = CRATES[crate]
    jpath = os.path.join(OUT, tag + '.json')
    log = os.path.join(OUT, tag + '.log')
    if os.path.exists(jpath):
        os.remove(jpath)
    cmd = ['cargo', 'kani', '--lib', '--target-dir', c['kani_target'],
           '-Z', 'stubbing', '-Z', 'unstable-options', '-Z', 'async-lib',
           '--output-format', 'terse', '--no-assertion-reach-checks',
           '--harness-timeout', str(harness_timeout), '--exact']
    if not mem_checks:
        cmd += ['--no-memory-safety-checks']
    if jobs > 1 and not playback:
        cmd += ['-j', str(jobs)]
    for h in harnesses:
        cmd += ['--harness', h]
    if playback:
        cmd += ['-Z', 'concrete-playback', '--concrete-playback=print']
    else:
        cmd += ['--export-json', jpath]
    if extra:
        cmd += extra
    cmd += ['--cbmc-args', '--unwindset', 'memcmp.0:66']
    env = cargo_env({'RUSTFLAGS': c['rustflags']})
    t0 = time.time()
    with open(log, 'w') as lf:
        p = subprocess.Popen(cmd, cwd=c['dir'], env=env, stdout=lf, stderr=subprocess.STDOUT,
                             preexec_fn=_limits)
        try:
            rc = p.wait(timeout=overall_timeout)
        except subprocess.TimeoutExpired:
            try:
                os.killpg(p.pid, signal.SIGKILL)
            except ProcessLookupError:
                pass
            p.wait()
            rc = 124
    wall = time.time() - t0
    meta = {'cmd': ' '.join(cmd), 'rc': rc, 'wall_s': round(wall, 1), 'log': log, 'json': jpath}
    if playback:
        with open(log, errors='replace') as fh:
            meta['output'] = fh.read()
        return {}, meta
    results = {}
    data = None
    if os.path.exists(jpath):
        try:
            with open(jpath) as fh:
                data = json.load(fh)
        except Exception as e:  # truncated export
            meta['json_error'] = str(e)
    if data is None and len(harnesses) > 1 and not _nested and 'could not compile' not in open(log, errors='replace').read():
        # kani-driver crashed (typically: one CBMC process died at the memory limit and the driver could not parse its
        # truncated output). Re-run every harness on its own so that only the crashing one is inconclusive.
        results = {}
        for i, h in enumerate(harnesses):
            r1, m1 = run_kani(crate, [h], '%s-solo%d' % (tag, i), jobs=1, harness_timeout=harness_timeout,
                              overall_timeout=harness_timeout + 900, extra=extra, mem_checks=mem_checks, _nested=True)
            results.update(r1)
        meta['fallback'] = 'sequential re-run after driver crash'
        return results, meta
    if data is None:
        with open(log, errors='replace') as fh:
            txt = fh.read()
        meta['build_failed'] = ('error' in txt)
        meta['log_tail'] = txt[-3000:]
        for h in harnesses:
            results[h] = {'verdict': 'inconclusive', 'reason': 'no JSON export (build failure or crash, rc=%s)' % rc,
                          'failed': [], 'cover': None, 'solver_s': 0.0, 'time_s': 0.0, 'checks': 0}
        return results, meta
    meta['tools'] = data.get('tools', {})
    stats = {c_['harness_id']: (c_.get('cbmc_stats') or {}) for c_ in data.get('cbmc', [])}
    errs = {e['harness_id']: e for e in data.get('error_details', [])}
    seen = {}
    for r in data['verification_results']['results']:
        seen[r['harness_id']] = r
    for h in harnesses:
        r = seen.get(h)
        if r is None:
            results[h] = {'verdict': 'inconclusive', 'reason': 'harness not found in the crate (renamed or removed?)',
                          'failed': [], 'cover': None, 'solver_s': 0.0, 'time_s': 0.0, 'checks': 0}
            continue
        st = stats.get(h, {})
        failed, unwind_fail, undetermined, covers, ignored = [], [], [], [], []
        for ch in r['checks']:
            s, cat = ch['status'], ch['category']
            if cat == 'cover':
                covers.append((ch['description'], s))
                continue
            if s == 'Failure':
                item = {'description': ch['description'].strip('"'), 'function': ch['function'],
                        'category': cat, 'location': '%s:%s' % (ch['location']['file'], ch['location']['line'])}
                if ((cat in ('safety_check', 'pointer_dereference', 'pointer')
                        and ch['description'].strip('"').startswith('dereference failure')
                        and ch['function'].split('::')[0].lstrip('<') in ('std', 'core', 'alloc'))
                        or ch['function'] in ('__rust_dealloc', '__rust_alloc', '__rust_realloc', '__rust_alloc_zeroed', 'free', 'malloc', 'realloc')):
                    # (allocator-model assertions of kani_lib.c are the same family)
                    # Memory safety is outside every claim (runs use --no-memory-safety-checks; safe Rust + trusted std).
                    # Kani 0.68 still emits this residual reference-validity check inside std (e.g. for the dangling
                    # pointer of an empty Vec cloned under a symbolic guard); it is counted, not judged.
                    ignored.append(item)
                elif cat == 'unsupported_construct':
                    # the code under test reached something Kani cannot execute (FFI, intrinsics): not a verdict
                    unwind_fail.append(item)
                elif cat == 'unwind':
                    unwind_fail.append(item)
                else:
                    failed.append(item)
            elif s in ('Undetermined', 'Unknown', 'Error'):
                undetermined.append(ch['description'])
        fns = sorted({ch['function'] for ch in r['checks']
                      if ch.get('location', {}).get('file', '').startswith(('teos', 'watchtower', '/repo'))})
        res = {'failed': failed, 'cover': covers, 'time_s': r['duration_ms'] / 1000.0, 'functions': fns[:80],
               'solver_s': float(st.get('runtime_decision_procedure_s') or 0.0) + float(st.get('runtime_symex_s') or 0.0),
               'sat_s': float(st.get('runtime_solver_s') or 0.0),
               'checks': len(r['checks']), 'vccs': st.get('vccs_generated'),
               'program_steps': st.get('size_program_expression'), 'ignored_std_pointer_checks': len(ignored)}
        e = errs.get(h, {})
        if not r['checks']:
            res['verdict'] = 'inconclusive'
            res['reason'] = 'no result: %s' % e.get('exit_status', 'unknown')
        elif failed:
            res['verdict'] = 'fails'
        elif unwind_fail:
            res['verdict'] = 'inconclusive'
            res['reason'] = 'unwinding assertion failed or unsupported construct reached: %s (%s)' % (unwind_fail[0]['function'], unwind_fail[0]['description'][:80])
        elif undetermined:
            res['verdict'] = 'inconclusive'
            res['reason'] = 'undetermined checks: %s' % undetermined[:3]
        elif r['status'] != 'Success' and not (ignored and all(
                ch['status'] in ('Success', 'Satisfied') or ch['status'] == 'Failure' for ch in r['checks'])):
            res['verdict'] = 'inconclusive'
            res['reason'] = 'status %s / %s' % (r['status'], e.get('exit_status'))
        elif not covers or any(s != 'Satisfied' for _, s in covers):
            res['verdict'] = 'inconclusive'
            res['reason'] = 'vacuous: cover twin not satisfied %s' % covers
        else:
            res['verdict'] = 'holds'
        results[h] = res
    return results, meta
