#!/bin/bash
# dev helper: run every claimed check (tier $1) sequentially and summarise
TIER=${1:-quick}
cd /verif
for p in $(python3 -c "import json; print(' '.join(c['property_id'] for c in json.load(open('MANIFEST.json'))['checks']))"); do
  s=$(date +%s)
  ./check $p --tier $TIER > .cache/out/all-$p-$TIER.txt 2>&1
  rc=$?
  e=$(date +%s)
  echo "$p rc=$rc $((e-s))s $(tail -1 .cache/out/all-$p-$TIER.txt | grep -v '^VIOLATION' | head -1)" 
  grep -E "^VIOLATION|^INCONCLUSIVE|^KNOWN-FINDING|^BUILD-FAILED" .cache/out/all-$p-$TIER.txt | cut -c1-200
done
