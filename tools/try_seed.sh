#!/bin/bash
# usage: try_seed.sh <seed dir name> <property> [--only regex]   — applies the patch to /repo, runs the check, reverts
S=$1; P=$2; shift 2
cd /verif
git -C /repo apply /verif/seeded/$S/patch.diff || { echo "patch does not apply"; exit 3; }
./check $P --tier ${TIER:-quick} "$@" > .cache/out/seed-$S-$P.txt 2>&1
rc=$?
git -C /repo checkout -- .
echo "$S vs $P: rc=$rc"; grep -E "^VIOLATION|^INCONCLUSIVE|^BUILD|tier=" .cache/out/seed-$S-$P.txt | cut -c1-220
