#!/usr/bin/env python3
"""Build a cargo 'directory source' from the .crate files in ~/.cargo/registry/cache (offline)."""
import sys, os, tarfile, hashlib, json, glob
dst = sys.argv[1]
os.makedirs(dst, exist_ok=True)
n = 0
for d in glob.glob(os.path.expanduser('~/.cargo/registry/cache/*')):
    for f in sorted(os.listdir(d)):
        if not f.endswith('.crate'): continue
        name = f[:-6]
        out = os.path.join(dst, name)
        if os.path.exists(os.path.join(out, '.cargo-checksum.json')): continue
        p = os.path.join(d, f)
        h = hashlib.sha256(open(p, 'rb').read()).hexdigest()
        with tarfile.open(p) as t:
            t.extractall(dst)
        json.dump({"files": {}, "package": h}, open(os.path.join(out, '.cargo-checksum.json'), 'w'))
        n += 1
print("vendored", n)
