"""Engine M, part 2: from MIR CFGs to synchronisation skeletons.

A *trace* of a function is the sequence of events along one CFG path (loops unrolled `LOOP` times), with crate-local
callees inlined (their traces are computed first and spliced in):
  ('acq', lock)   std::sync::Mutex::<T>::lock followed by unwrap/expect of the LockResult (lock named after T)
  ('rel', lock)   drop of the guard local (statement temporaries included), explicit mem::drop, or return
  ('wait', lock)  Condvar::wait on the guard of `lock` (releases and re-acquires)
  ('notify', cv)  Condvar::notify_all / notify_one
  ('call', name)  a call to an effect callee selected by the scenario's alphabet
Only the events in the scenario's alphabet are kept, so traces are short and their number stays small; if the number
of distinct traces of any function exceeds CAP the extraction is reported as inconclusive (never silently truncated).
"""
import re

from mir_extract import resolve_callee

LOOP = 2
CAP = 4000

LOCK_RE = re.compile(r'^std::sync::Mutex::<(.+)>::lock$')
GUARD_TY_RE = re.compile(r"MutexGuard<'_?\w*,? ?(.+)>")


def norm_type(t):
    t = t.strip()
    t = re.sub(r"'\w+ ", '', t)
    t = re.sub(r'\bstd::collections::(?:hash_map::|hash_set::)?', '', t)
    t = re.sub(r'\b(?:teos_common|bitcoin|lightning|crate|std::sync|tx_index|dbm|carrier|gatekeeper|responder|extended_appointment)::', '', t)
    t = re.sub(r'\bhash_types::', '', t)
    t = t.replace('TowerId', 'UserId')
    return t


class Skeletons:
    def __init__(self, funcs, idx, lock_names, alphabet_calls, inline_filter=None, event_filter=None):
        """lock_names: callable(type string) -> lock name; alphabet_calls: callable(callee string) -> event name or None"""
        self.funcs = funcs
        self.idx = idx
        self.lock_names = lock_names
        self.alpha = alphabet_calls
        self.cache = {}
        self.in_progress = set()
        self.problems = []
        self.functions_seen = set()
        self.inline_filter = inline_filter
        self.event_filter = event_filter
        self.closure_by_type = {}
        for n, f in funcs.items():
            if '{closure' in n and f.params:
                t = f.params[0][1]
                m = re.search(r'(\{closure@[^}]*\})', t)
                if m:
                    self.closure_by_type.setdefault(m.group(1), n)

    def _ev(self, *events):
        if self.event_filter is None:
            return tuple(events)
        return tuple(e for e in events if self.event_filter(e))

    # ------------------------------------------------------------------ per-function traces
    def traces(self, fname):
        if fname in self.cache:
            return self.cache[fname]
        if fname in self.in_progress:
            # recursion: keep the recursive call as an event, do not inline
            return {(('call', 'rec:' + fname.split('::')[-1]),)}
        self.in_progress.add(fname)
        f = self.funcs[fname]
        self.functions_seen.add(fname)
        out = set()
        # DFS over paths: state = (bb, visits dict, guards map local->lock, pending map local->lock (LockResult), trace tuple)
        stack = [('bb0', {}, {}, {}, ())]
        steps = 0
        seen_states = set()
        while stack:
            bb, visits, guards, pending, tr = stack.pop()
            key = (bb, tuple(sorted(visits.items())), tuple(sorted(guards.items())), tuple(sorted(pending.items())), tr)
            if key in seen_states:
                continue
            seen_states.add(key)
            steps += 1
            if steps > 400000 or len(out) > CAP:
                self.problems.append('trace explosion in %s' % fname)
                break
            v = visits.get(bb, 0)
            if v >= LOOP:
                continue
            visits = dict(visits)
            visits[bb] = v + 1
            blk = f.blocks.get(bb)
            if blk is None:
                self.problems.append('missing block %s in %s' % (bb, fname))
                continue
            guards = dict(guards)
            pending = dict(pending)
            # statements: moves of guards between locals
            for s in blk.stmts:
                m = re.match(r'^(_\d+) = (\{closure@[^}]*\})', s)
                if m and m.group(2) in self.closure_by_type:
                    pending['closure:' + m.group(1)] = self.closure_by_type[m.group(2)]
                m = re.match(r'^(_\d+) = move (_\d+);$', s)
                if m:
                    if m.group(2) in guards:
                        guards[m.group(1)] = guards.pop(m.group(2))
                    if m.group(2) in pending:
                        pending[m.group(1)] = pending.pop(m.group(2))
            t = blk.term
            k = t['kind']
            if k == 'goto':
                stack.append((t['next'], visits, guards, pending, tr))
            elif k == 'switch':
                seen = set()
                for _, target in t['targets']:
                    if target not in seen:
                        seen.add(target)
                        stack.append((target, visits, guards, pending, tr))
            elif k == 'assert':
                stack.append((t['next'], visits, guards, pending, tr))
            elif k == 'yield':
                stack.append((t['next'], visits, guards, pending, tr + self._ev(('yield', ''))))
            elif k == 'drop':
                place = t['place']
                if place in guards:
                    tr = tr + self._ev(('rel', guards.pop(place)))
                elif place in pending:
                    pending.pop(place)
                stack.append((t['next'], visits, guards, pending, tr))
            elif k == 'return':
                for g in list(guards):
                    if g != '_0':
                        tr = tr + self._ev(('rel', guards[g]))
                if '_0' in guards:
                    # the guard is handed to the caller: no release here; the caller's destination local owns it
                    out.add(tr + (('retguard', guards['_0']),))
                else:
                    out.add(tr + ())
            elif k == 'end':
                # unreachable / resume: not a normal completion; panics are handled by the caller of this analysis
                if t['what'] == 'unreachable':
                    pass
            elif k == 'call':
                callee = t['callee']
                dest = t['dest']
                args = t['args']
                nxt = t['next']
                m = LOCK_RE.match(callee)
                if m:
                    lock = self.lock_names(norm_type(m.group(1)))
                    if dest:
                        pending[dest] = lock
                    if nxt:
                        stack.append((nxt, visits, guards, pending, tr))
                    continue
                arg_locals = [a.split()[-1] for a in args if re.match(r'^(?:move|copy) _\d+$', a)]
                if re.search(r'::(unwrap|expect)$', callee) and arg_locals and arg_locals[0] in pending:
                    lock = pending.pop(arg_locals[0])
                    if dest:
                        guards[dest] = lock
                    if nxt:
                        stack.append((nxt, visits, guards, pending, tr + self._ev(('acq', lock))))
                    continue
                if re.search(r'Condvar::wait(?:_while|_timeout)?(?:::<.*>)?$', callee) and arg_locals:
                    g = [a for a in arg_locals if a in guards]
                    if g:
                        lock = guards.pop(g[0])
                        if dest:
                            pending[dest] = lock
                        # wait = release + block + re-acquire; the re-acquire is the unwrap of the LockResult
                        if nxt:
                            stack.append((nxt, visits, guards, pending, tr + self._ev(('wait', lock), ('rel', lock))))
                        continue
                if re.search(r'Condvar::notify_(all|one)$', callee):
                    if nxt:
                        stack.append((nxt, visits, guards, pending, tr + self._ev(('notify', 'cv'))))
                    continue
                if re.search(r'mem::drop::<.*MutexGuard', callee) and arg_locals and arg_locals[0] in guards:
                    lock = guards.pop(arg_locals[0])
                    if nxt:
                        stack.append((nxt, visits, guards, pending, tr + self._ev(('rel', lock))))
                    continue
                ev = self.alpha(callee)
                target = resolve_callee(callee, self.funcs, self.idx)
                if target is None:
                    # a crate-local closure handed to a std adaptor (bool::then, Option::map, ...): the adaptor may call it
                    cl = [pending.get('closure:' + a) for a in arg_locals if ('closure:' + a) in pending]
                    if cl and re.search(r'::(then|then_some|map|map_or|map_or_else|and_then|unwrap_or_else|or_else|get_or_insert_with|for_each|filter|retain)(?:::<.*>)?$', callee):
                        target = cl[0]
                        maybe_not_called = True
                    else:
                        maybe_not_called = False
                else:
                    maybe_not_called = False
                if target is not None and self.funcs[target].blocks and (self.inline_filter is None or self.inline_filter(target)):
                    subs = self.traces(target)
                    if nxt is None:
                        continue
                    pre = tr + (self._ev(('call', ev)) if ev else ())
                    if len(subs) * 1 > CAP:
                        self.problems.append('too many traces of %s' % target)
                        subs = set(list(subs)[:CAP])
                    if maybe_not_called:
                        stack.append((nxt, visits, guards, pending, pre))
                    for st in subs:
                        g2 = guards
                        if st and st[-1][0] == 'retguard':
                            g2 = dict(guards)
                            if dest:
                                g2[dest] = st[-1][1]
                            st = st[:-1]
                        stack.append((nxt, visits, g2, pending, pre + st))
                    continue
                if ev:
                    tr = tr + self._ev(('call', ev))
                if nxt:
                    stack.append((nxt, visits, guards, pending, tr))
            else:
                self.problems.append('unknown terminator in %s %s' % (fname, bb))
        self.in_progress.discard(fname)
        self.cache[fname] = out
        return out


def project(traces, keep):
    """Keeps only events for which keep(event) is true and removes duplicates."""
    out = set()
    for t in traces:
        out.add(tuple(e for e in t if keep(e)))
    return out


def lock_edges(traces):
    """(held set, acquired) pairs along the traces, plus self-deadlocks (acquiring a lock that is already held)."""
    edges, selfdead = set(), set()
    for t in traces:
        held = []
        for e in t:
            if e[0] == 'acq':
                if e[1] in held:
                    selfdead.add((tuple(held), e[1]))
                edges.add((frozenset(held), e[1]))
                held.append(e[1])
            elif e[0] == 'rel':
                if e[1] in held:
                    held.remove(e[1])
            elif e[0] == 'wait':
                pass
    return edges, selfdead
