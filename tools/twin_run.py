"""Encoding validation (not solver-based): native twin run of the DBM verification model against the real sqlite DBM."""
import os
import re
import subprocess
import time

from common import CACHE, REPO


def run(prop, obligations, tier, seed):
    for o in obligations:
        t0 = time.time()
        runs = 600 if tier == 'quick' else 4000
        steps = 40 if tier == 'quick' else 50
        env = dict(os.environ)
        env.update({'RUSTFLAGS': '--cfg teos_verif_twin', 'CARGO_NET_OFFLINE': 'true', 'VERIF_SEED': str(seed),
                    'VERIF_TWIN_RUNS': str(runs), 'VERIF_TWIN_STEPS': str(steps), 'CARGO_TERM_COLOR': 'never'})
        env.pop('CARGO_HOME', None)
        cmd = ['cargo', 'test', '--offline', '--lib', '--target-dir', os.path.join(CACHE, 'twin-target'), 'verif_dbm_twin', '--', '--nocapture']
        try:
            p = subprocess.run(cmd, cwd=os.path.join(REPO, 'teos'), env=env, stdout=subprocess.PIPE, stderr=subprocess.STDOUT, text=True, timeout=3000)
            out = p.stdout
        except subprocess.TimeoutExpired:
            out = 'timeout'
        r = {'time_s': round(time.time() - t0, 1), 'failed': [], 'queries': 0, 'solver_s': 0.0}
        m = re.search(r'TWIN-OK runs=(\d+) ops=(\d+) op_kinds=(\d+)', out)
        d = re.search(r'MODEL-DRIFT at `(.+?)`: (.*)', out)
        if m and 'test result: ok' in out:
            r['verdict'] = 'holds'
            r['witness'] = {'sequences': int(m.group(1)), 'operations': int(m.group(2)), 'operation_kinds': int(m.group(3)),
                            'note': 'sampling-based validation of models/dbm_tower.rs against teos/src/dbm.rs (real sqlite); not a solver verdict'}
            r['states'] = int(m.group(2))
            r['transitions'] = int(m.group(2))
            r['traces_validated'] = int(m.group(1))
        elif d:
            i = out.find('sequence:')
            r['verdict'] = 'fails'
            r['failed'] = [{'description': 'MODEL-DRIFT at `%s`: the real DBM and the model the Kani harnesses run against disagree' % d.group(1),
                            'function': 'teos::dbm::DBM vs models/dbm_tower.rs', 'detail': d.group(2)[:600],
                            'schedule': out[i:i + 4000].splitlines()[:60]}]
            r['trace'] = out[i:i + 6000]
        else:
            r['verdict'] = 'inconclusive'
            r['reason'] = 'twin run did not complete: ' + out[-600:]
        yield {'obligation': o, 'result': r}, {'cmd': 'RUSTFLAGS="--cfg teos_verif_twin" ' + ' '.join(cmd)}
