#!/bin/bash
# Confirms a seeded change independently: usage confirm_seed.sh <dir with patch.diff + demo.diff> <test name filter> [crate]
# 1. patch + demo applied: whole suite passes except the demo, demo fails
# 2. demo only: demo passes
set -u
D=$1; FILTER=$2; CRATE=${3:-teos}
WT=/root/scratch/confirm
cd /repo && git worktree remove --force $WT 2>/dev/null; git worktree prune
git worktree add -q $WT HEAD || exit 3
cp -r /repo/target $WT/target
cd $WT
git apply $D/patch.diff || { echo "PATCH DOES NOT APPLY"; exit 3; }
git apply $D/demo.diff || { echo "DEMO DOES NOT APPLY"; exit 3; }
echo "== with change: full suite"
timeout 3000 cargo test --workspace --offline --no-fail-fast 2>&1 | grep -E "^test .*FAILED|^test result|^error" | tee /tmp/confirm_with.txt
echo "== without change: demo only"
git apply -R $D/patch.diff || exit 3
timeout 3000 cargo test -p $CRATE --offline $FILTER 2>&1 | grep -E "^test .*(ok|FAILED)$|^test result: .* [1-9][0-9]* passed|^error" | tee /tmp/confirm_without.txt
cd /repo && git worktree remove --force $WT; git worktree prune
