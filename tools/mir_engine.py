"""Engine M: MIR (regenerated from /repo's current tree) -> synchronisation skeletons -> SMT-LIB2 -> z3 (+ cvc5 cross-check).

Each query builds a bounded transition-system / constraint problem whose variables are the *schedule* (which thread is at
which event, which trace each thread follows) and asks the solver for a bad state. unsat => holds within the bounds
(threads, traces with loops unrolled twice); sat => the model is decoded into a schedule over MIR events and reported.
"""
import hashlib
import json
import os
import re
import subprocess
import time

import common
import mir_extract as MX
import mir_skeleton as SK

Z3 = '/usr/bin/z3'
CVC5 = 'cvc5'

_mir_cache = {}


def crate_fingerprint(crate):
    return common.repo_fingerprint(paths=(crate + '/src', 'teos-common/src'))


def load_mir(crate, kind='lib', name=None):
    """MIR of the current tree; the dump is re-used only while the crate's sources are byte-identical."""
    key = (crate, kind, name)
    if key in _mir_cache:
        return _mir_cache[key]
    fp = crate_fingerprint(crate)
    os.makedirs(MX.MIR_DIR, exist_ok=True)
    path = os.path.join(MX.MIR_DIR, '%s-%s.mir' % (crate, name or kind))
    stamp = path + '.fp'
    t = 0.0
    if not (os.path.exists(path) and os.path.exists(stamp) and open(stamp).read() == fp):
        p, t, err = MX.dump_mir(crate, kind, name)
        if p is None:
            _mir_cache[key] = (None, None, t, err)
            return _mir_cache[key]
        with open(stamp, 'w') as fh:
            fh.write(fp)
    funcs = MX.parse_mir(path)
    idx = MX.index_methods(funcs)
    _mir_cache[key] = (funcs, idx, t, None)
    return _mir_cache[key]


def smt(text, want_model=True, timeout=120):
    """Runs z3 and cvc5 on the same SMT-LIB2 text. Returns (verdict, model text, seconds) where verdict is
    'sat' / 'unsat' / 'inconclusive' (solver error, disagreement or time-out)."""
    t0 = time.time()
    outs = []
    for cmd in ([Z3, '-in', '-T:%d' % timeout], [CVC5, '--lang', 'smt2', '--produce-models', '--tlimit=%d' % (timeout * 1000)]):
        try:
            p = subprocess.run(cmd, input=text, stdout=subprocess.PIPE, stderr=subprocess.STDOUT, text=True, timeout=timeout + 30)
            outs.append(p.stdout)
        except (subprocess.TimeoutExpired, FileNotFoundError) as e:
            outs.append('(error "%s")' % e)
    verdicts = []
    for k in range(len(outs)):
        # asking for a model after `unsat` is answered with an error line by both solvers: benign, everything else is not
        outs[k] = '\n'.join(l for l in outs[k].splitlines()
                            if not re.search(r'model is not available|Cannot get (value|model) unless', l))
    for o in outs:
        first = o.strip().splitlines()[0].strip() if o.strip() else ''
        if '(error' in o or first not in ('sat', 'unsat'):
            verdicts.append('inconclusive')
        else:
            verdicts.append(first)
    dt = time.time() - t0
    if verdicts[0] != verdicts[1] or 'inconclusive' in verdicts:
        return 'inconclusive', 'z3: %s | cvc5: %s' % (outs[0][:300], outs[1][:300]), dt
    return verdicts[0], outs[0], dt


# ------------------------------------------------------------------------------------------------------------ teos model
def teos_lock_name(t):
    if t.startswith('HashMap<UserId, UserInfo>'):
        return 'users'
    if t == 'DBM':
        return 'dbm'
    if t.startswith('TxIndex<Locator'):
        return 'locator_cache'
    if t.startswith('TxIndex<Txid'):
        return 'tx_index'
    if t == 'Carrier':
        return 'carrier'
    if t.startswith('HashSet<UUID>'):
        return 'reorged'
    if t == 'bool':
        return 'bitcoind_reachable'
    return 'lock<%s>' % t


def teos_entries(funcs):
    api = sorted(n for n in funcs if re.match(r'^internal::<impl at .*?>::\w+::\{closure#0\}$', n))
    chain_c = sorted(n for n in funcs if re.match(r'^(gatekeeper|watcher|responder)::<impl at .*?>::filtered_block_connected$', n))
    chain_d = sorted(n for n in funcs if re.match(r'^(gatekeeper|watcher|responder)::<impl at .*?>::block_disconnected$', n))
    return api, chain_c, chain_d


def short(n):
    m = re.match(r'^(\w+)::<impl at .*?>::(.+)$', n)
    return '%s::%s' % (m.group(1), m.group(2).replace('::{closure#0}', '')) if m else n


def q_lock_order(o, tier):
    """C11.M1: is there a pair of concurrently runnable entry points and a reachable state in which each holds a lock the
    other one requests, with no common gate lock?  Also: a thread re-acquiring a lock it holds."""
    funcs, idx, t_mir, err = load_mir('teos')
    if funcs is None:
        return {'verdict': 'inconclusive', 'reason': 'MIR dump failed: %s' % (err or '')[-400:]}
    sk = SK.Skeletons(funcs, idx, teos_lock_name, lambda c: None)
    api, chain_c, chain_d = teos_entries(funcs)
    if len(api) < 8 or len(chain_c) != 3 or len(chain_d) != 3:
        return {'verdict': 'inconclusive', 'reason': 'entry points not found in MIR (api=%d, connect=%d, disconnect=%d)' % (len(api), len(chain_c), len(chain_d))}
    per_entry = {}
    selfdead = []
    for e in api + chain_c + chain_d:
        tr = SK.project(sk.traces(e), lambda ev: ev[0] in ('acq', 'rel'))
        edges, sd = SK.lock_edges(tr)
        per_entry[e] = edges
        for h, a in sd:
            selfdead.append((e, h, a))
    if sk.problems:
        return {'verdict': 'inconclusive', 'reason': '; '.join(sk.problems[:3])}
    locks = sorted({a for es in per_entry.values() for _, a in es} | {x for es in per_entry.values() for h, _ in es for x in h})
    bit = {l: i for i, l in enumerate(locks)}
    n = len(locks)

    def bv(s):
        v = 0
        for l in s:
            v |= 1 << bit[l]
        return '(_ bv%d %d)' % (v, n)

    # threads: A ranges over API handlers; B over API handlers and chain events (two chain events never run concurrently)
    rows_a = [(e, h, a) for e in api for (h, a) in per_entry[e] if h]
    rows_b = [(e, h, a) for e in api + chain_c + chain_d for (h, a) in per_entry[e] if h]

    def table(name, rows, f):
        s = '(define-fun %s ((i Int)) (_ BitVec %d)\n' % (name, n)
        for i, r in enumerate(rows):
            s += '  (ite (= i %d) %s\n' % (i, f(r))
        s += '  %s' % bv([]) + ')' * len(rows) + ')\n'
        return s

    base = '(set-logic ALL)\n(declare-const ia Int)\n(declare-const ib Int)\n'
    base += table('heldA', rows_a, lambda r: bv(r[1])) + table('acqA', rows_a, lambda r: bv([r[2]]))
    base += table('heldB', rows_b, lambda r: bv(r[1])) + table('acqB', rows_b, lambda r: bv([r[2]]))
    base += '(assert (and (>= ia 0) (< ia %d) (>= ib 0) (< ib %d)))\n' % (len(rows_a), len(rows_b))
    zero = bv([])
    base += '(assert (not (= (bvand (acqA ia) (heldB ib)) %s)))\n' % zero      # A requests what B holds
    base += '(assert (not (= (bvand (acqB ib) (heldA ia)) %s)))\n' % zero      # B requests what A holds
    base += '(assert (= (bvand (heldA ia) (heldB ib)) %s))\n' % zero           # no common gate lock
    found, queries, solver_s = [], 0, 0.0
    blocked = ''
    for _ in range(12):
        text = base + blocked + '(check-sat)\n(get-value (ia ib))\n'
        v, out, dt = smt(text)
        queries += 1
        solver_s += dt
        if v == 'inconclusive':
            return {'verdict': 'inconclusive', 'reason': 'solver: ' + out[:300], 'queries': queries, 'solver_s': solver_s}
        if v == 'unsat':
            break
        m = re.search(r'\(ia (\d+)\)\)?\s*\(?\(ib (\d+)\)', out.replace('\n', ' '))
        ia, ib = int(m.group(1)), int(m.group(2))
        ea, ha, aa = rows_a[ia]
        eb, hb, ab = rows_b[ib]
        pair = tuple(sorted([aa, ab]))
        found.append({'pair': pair, 'threadA': short(ea), 'A_holds': sorted(ha), 'A_requests': aa,
                      'threadB': short(eb), 'B_holds': sorted(hb), 'B_requests': ab})
        # block every row pair that realises the same unordered lock pair
        blocked += '(assert (not (and (or (= (acqA ia) %s) (= (acqA ia) %s)) (or (= (acqB ib) %s) (= (acqB ib) %s)))))\n' % (
            bv([pair[0]]), bv([pair[1]]), bv([pair[0]]), bv([pair[1]]))
    failed = []
    for f in found:
        failed.append({'description': 'lock-order cycle: %s <-> %s' % f['pair'],
                       'function': '%s | %s' % (f['threadA'], f['threadB']), 'schedule': [
                           '%s acquires %s' % (f['threadA'], ', '.join(f['A_holds'])),
                           '%s acquires %s' % (f['threadB'], ', '.join(f['B_holds'])),
                           '%s requests %s (held by the other thread): blocks' % (f['threadA'], f['A_requests']),
                           '%s requests %s (held by the other thread): blocks' % (f['threadB'], f['B_requests'])]})
    for e, h, a in selfdead:
        failed.append({'description': 'self-deadlock: %s re-acquired while held' % a, 'function': short(e), 'schedule': ['holds %s' % (list(h),), 'locks %s again' % a]})
    res = {'verdict': 'fails' if failed else 'holds', 'failed': failed, 'queries': queries, 'solver_s': solver_s + t_mir,
           'functions': sorted(short(x) for x in sk.functions_seen),
           'witness': {'locks': locks, 'edge_rows_api': len(rows_a), 'edge_rows_all': len(rows_b),
                       'order_edges': sorted({'%s -> %s' % (x, a) for es in per_entry.values() for h, a in es for x in h})},
           'model': found}
    return res


def _first_events(traces, n=1):
    return {t[:n] for t in traces}


def q_api_guard(o, tier):
    """C12.M1: every public API handler checks the bitcoind-reachable flag before any other effect (lock, DBM, watcher call)."""
    funcs, idx, t_mir, err = load_mir('teos')
    if funcs is None:
        return {'verdict': 'inconclusive', 'reason': 'MIR dump failed'}

    def alpha(c):
        if 'check_service_unavailable' in c:
            return 'guard'
        m = re.match(r'^Watcher::(\w+)', c)
        if m:
            return 'Watcher::' + m.group(1)
        return None
    sk = SK.Skeletons(funcs, idx, teos_lock_name, alpha, inline_filter=lambda n: not n.startswith('watcher::') and 'check_service_unavailable' not in n)
    pub = sorted(n for n in funcs if re.match(r'^internal::<impl at teos/src/api/internal.rs:69.*?>::\w+::\{closure#0\}$', n))
    # the public impl block is identified by content, not by line: it is the one whose handlers call the guard at all
    handlers = sorted(n for n in funcs if re.match(r'^internal::<impl at .*?>::(register|add_appointment|get_appointment|get_subscription_info)::\{closure#0\}$', n))
    if len(handlers) != 4:
        return {'verdict': 'inconclusive', 'reason': 'public handlers not found (%d)' % len(handlers)}
    failed, queries, solver_s = [], 0, 0.0
    samples = {}
    for h in handlers:
        tr = SK.project(sk.traces(h), lambda ev: ev[0] in ('acq', 'call'))
        # SMT: exists a trace whose first effect event is not the guard
        rows = sorted(tr)
        text = '(set-logic ALL)\n(declare-const i Int)\n(define-fun first ((i Int)) Int\n'
        for k, t in enumerate(rows):
            code = 0 if not t else (1 if t[0] == ('call', 'guard') else 2)
            text += ' (ite (= i %d) %d\n' % (k, code)
        text += ' 0' + ')' * len(rows) + ')\n(assert (and (>= i 0) (< i %d)))\n(assert (= (first i) 2))\n(check-sat)\n(get-value (i))\n' % len(rows)
        v, out, dt = smt(text)
        queries += 1
        solver_s += dt
        samples[short(h)] = [list(map(list, t[:3])) for t in rows[:2]]
        if v == 'inconclusive':
            return {'verdict': 'inconclusive', 'reason': out[:200]}
        if v == 'sat':
            i = int(re.search(r'\(i (\d+)\)', out).group(1))
            failed.append({'description': 'API handler reaches %s before checking that bitcoind is reachable' % (rows[i][0],), 'function': short(h)})
    return {'verdict': 'fails' if failed else 'holds', 'failed': failed, 'queries': queries, 'solver_s': solver_s,
            'witness': samples, 'functions': sorted(short(x) for x in sk.functions_seen)}


def q_poll_best_tip(o, tier):
    """C12.M3: in ChainMonitor::poll_best_tip every path that got an answer from the node (Ok arm) raises the reachable flag
    and notifies the condvar before returning; every transient error path lowers the flag; no path returns with the flag
    lock held."""
    funcs, idx, t_mir, err = load_mir('teos')
    if funcs is None:
        return {'verdict': 'inconclusive', 'reason': 'MIR dump failed'}
    name = [n for n in funcs if re.match(r'^chain_monitor::<impl at .*?>::poll_best_tip::\{closure#0\}$', n)]
    if len(name) != 1:
        return {'verdict': 'inconclusive', 'reason': 'poll_best_tip not found'}
    f = funcs[name[0]]
    # classify paths by the statements that write the flag: `(*_x) = const true/false` through a deref_mut of the bool guard
    def alpha(c):
        if re.search(r'poll_best_chain_tip', c) or re.search(r'poll::\{closure', c):
            return 'poll'
        return None
    sk = SK.Skeletons(funcs, idx, teos_lock_name, alpha)
    # flag writes are plain statements, not calls: extend traces by scanning blocks
    writes, ready = {}, {}
    for b in f.blocks.values():
        for s_ in b.stmts:
            m = re.match(r'^\(\*_\d+\) = const (true|false);$', s_)
            if m:
                writes[b.id] = m.group(1)
            m = re.match(r'^_0 = std::task::Poll::<\(\)>::(Ready|Pending)', s_)
            if m:
                ready[b.id] = m.group(1)
    paths = []
    stack = [('bb0', (), {})]
    steps = 0
    while stack:
        bb, tr, vis = stack.pop()
        steps += 1
        if steps > 300000:
            return {'verdict': 'inconclusive', 'reason': 'path explosion'}
        if vis.get(bb, 0) >= 2:
            continue
        vis = dict(vis)
        vis[bb] = vis.get(bb, 0) + 1
        b = f.blocks[bb]
        if bb in writes:
            tr = tr + (('set', writes[bb]),)
        if bb in ready:
            tr = tr + (('poll', ready[bb]),)
        t = b.term
        k = t['kind']
        if k == 'call':
            c = t['callee']
            if re.search(r'Condvar::notify_all', c):
                tr = tr + (('notify', ''),)
            elif re.search(r'BlockSourceError::kind', c):
                tr = tr + (('errkind', ''),)
            if t['next']:
                stack.append((t['next'], tr, vis))
        elif k in ('goto', 'assert', 'drop'):
            stack.append((t['next'], tr, vis))
        elif k == 'yield':
            stack.append((t['next'], tr, vis))
        elif k == 'switch':
            for tg in dict.fromkeys(x[1] for x in t['targets']):
                stack.append((tg, tr, vis))
        elif k == 'return':
            paths.append(tr)
    # only completed polls (Poll::Ready) count; the Err arm is recognised by its call to BlockSourceError::kind
    paths = sorted({p for p in paths if ('poll', 'Ready') in p})
    rows = []
    for p in paths:
        sets = [e[1] for e in p if e[0] == 'set']
        last = sets[-1] if sets else 'none'
        err_arm = ('errkind', '') in p
        notified_after = False
        if 'true' in sets:
            i = max(k for k, e in enumerate(p) if e == ('set', 'true'))
            notified_after = any(e[0] == 'notify' for e in p[i:])
        rows.append((p, last, notified_after, err_arm))
    text = '(set-logic ALL)\n(declare-const i Int)\n(define-fun bad ((i Int)) Bool\n'
    for k, (p, last, na, err_arm) in enumerate(rows):
        bad = (not err_arm and not (last == 'true' and na)) or (err_arm and last == 'true')
        text += ' (ite (= i %d) %s\n' % (k, 'true' if bad else 'false')
    text += ' false' + ')' * len(rows) + ')\n(assert (and (>= i 0) (< i %d)))\n(assert (bad i))\n(check-sat)\n(get-value (i))\n' % max(1, len(rows))
    v, out, dt = smt(text)
    if v == 'inconclusive':
        return {'verdict': 'inconclusive', 'reason': out[:200]}
    n_true = sum(1 for r in rows if r[1] == 'true')
    n_false = sum(1 for r in rows if r[1] == 'false' and r[3])
    if not rows or n_true == 0 or n_false == 0:
        return {'verdict': 'inconclusive', 'reason': 'vacuous: %d paths, %d raise, %d lower the flag' % (len(rows), n_true, n_false)}
    failed = []
    if v == 'sat':
        i = int(re.search(r'\(i (\d+)\)', out).group(1))
        p, last, na, err_arm = rows[i]
        failed.append({'description': 'poll_best_tip: %s' % ('an error poll raises the reachable flag' if err_arm else 'a successful poll can complete without raising the reachable flag and notifying the waiters'),
                       'function': 'chain_monitor::poll_best_tip', 'schedule': [list(e) for e in p]})
    return {'verdict': 'fails' if failed else 'holds', 'failed': failed, 'queries': 1, 'solver_s': dt,
            'witness': {'paths': len(rows), 'raise_flag_and_notify': n_true, 'lower_flag': n_false, 'sample': [list(e) for e in rows[0][0]]},
            'functions': ['chain_monitor::poll_best_tip']}


def _interleave_query(ta, tb, bad_orders, locks):
    """BMC over two event sequences with mutual exclusion on locks. Events are tuples; `bad_orders` is a list of
    (thread, index, thread, index) meaning event X must happen before event Y in the bad run. Returns SMT text.
    Position variables: pA_k / pB_k = the global step at which thread A/B executes its k-th event."""
    n, m = len(ta), len(tb)
    s = '(set-logic ALL)\n'
    for k in range(n):
        s += '(declare-const a%d Int)\n' % k
    for k in range(m):
        s += '(declare-const b%d Int)\n' % k
    allv = ['a%d' % k for k in range(n)] + ['b%d' % k for k in range(m)]
    s += '(assert (distinct %s))\n' % ' '.join(allv) if len(allv) > 1 else ''
    for v in allv:
        s += '(assert (and (>= %s 0) (< %s %d)))\n' % (v, v, n + m)
    for k in range(n - 1):
        s += '(assert (< a%d a%d))\n' % (k, k + 1)
    for k in range(m - 1):
        s += '(assert (< b%d b%d))\n' % (k, k + 1)

    def sections(t):
        out, open_ = [], {}
        for k, e in enumerate(t):
            if e[0] == 'acq':
                open_[e[1]] = k
            elif e[0] == 'rel' and e[1] in open_:
                out.append((e[1], open_.pop(e[1]), k))
        return out
    for la, sa, ea in sections(ta):
        for lb, sb, eb in sections(tb):
            if la == lb:
                s += '(assert (or (< a%d b%d) (< b%d a%d)))\n' % (ea, sb, eb, sa)   # critical sections do not overlap
    for (t1, i1, t2, i2) in bad_orders:
        s += '(assert (< %s%d %s%d))\n' % (t1, i1, t2, i2)
    s += '(check-sat)\n(get-model)\n'
    return s


def q_missed_breach(o, tier):
    """C10.M1: thread A = add_appointment (cache miss path: TxIndex::get ... DBM::store_appointment), thread B = the watcher's
    block connection (TxIndex::update ... DBM::batch_check_locators_exist). Bad run: A's look-up happens before B's cache
    update (so A sees no dispute) and B's database look-up happens before A's store (so B sees no appointment)."""
    funcs, idx, t_mir, err = load_mir('teos')
    if funcs is None:
        return {'verdict': 'inconclusive', 'reason': 'MIR dump failed'}

    def alpha(c):
        m = re.match(r'^DBM::(store_appointment|update_appointment|batch_check_locators_exist)$', c)
        if m:
            return 'DBM::' + m.group(1)
        m = re.match(r'^TxIndex::<Locator, .*?>::(get|update)$', c)
        if m:
            return 'cache.' + m.group(1)
        return None
    # only the cache lock is kept: mutual exclusion on it is what the property rests on; dropping the other locks only
    # adds interleavings (sound for `holds`; a sat answer would be re-examined with all locks)
    sk = SK.Skeletons(funcs, idx, teos_lock_name, alpha,
                      event_filter=lambda ev: ev[0] == 'call' or (ev[0] in ('acq', 'rel') and ev[1] == 'locator_cache'))
    fa = [n for n in funcs if re.match(r'^watcher::<impl at .*?>::add_appointment$', n)]
    fb = [n for n in funcs if re.match(r'^watcher::<impl at .*?>::filtered_block_connected$', n)]
    if len(fa) != 1 or len(fb) != 1:
        return {'verdict': 'inconclusive', 'reason': 'entry points not found'}
    keep = lambda ev: (ev[0] in ('acq', 'rel') and ev[1] in ('locator_cache', 'dbm')) or ev[0] == 'call'
    ta_all = [t for t in SK.project(sk.traces(fa[0]), keep) if ('call', 'cache.get') in t and (('call', 'DBM::store_appointment') in t or ('call', 'DBM::update_appointment') in t)]
    tb_all = [t for t in SK.project(sk.traces(fb[0]), keep) if ('call', 'cache.update') in t and ('call', 'DBM::batch_check_locators_exist') in t]
    if sk.problems or not ta_all or not tb_all:
        return {'verdict': 'inconclusive', 'reason': 'skeleton not found: %s (A=%d, B=%d traces)' % (sk.problems[:2], len(ta_all), len(tb_all))}
    failed, queries, solver_s = [], 0, 0.0
    for ta in sorted(set(ta_all)):
        ia_get = ta.index(('call', 'cache.get'))
        stores = [k for k, e in enumerate(ta) if e in (('call', 'DBM::store_appointment'), ('call', 'DBM::update_appointment'))]
        for tb in sorted(set(tb_all)):
            ib_upd = tb.index(('call', 'cache.update'))
            ib_chk = tb.index(('call', 'DBM::batch_check_locators_exist'))
            for ia_store in stores:
                text = _interleave_query(ta, tb, [('a', ia_get, 'b', ib_upd), ('b', ib_chk, 'a', ia_store)], None)
                v, out, dt = smt(text)
                queries += 1
                solver_s += dt
                if v == 'inconclusive':
                    return {'verdict': 'inconclusive', 'reason': out[:200]}
                if v == 'sat':
                    failed.append({'description': 'missed breach: an appointment can be stored after the block with its dispute was checked against the database although its cache look-up preceded the cache update',
                                   'function': 'Watcher::add_appointment | Watcher::filtered_block_connected',
                                   'schedule': {'A': [list(e) for e in ta], 'B': [list(e) for e in tb], 'model': out[:600]}})
                    break
            if failed:
                break
        if failed:
            break
    return {'verdict': 'fails' if failed else 'holds', 'failed': failed, 'queries': queries, 'solver_s': solver_s,
            'witness': {'A_traces': len(set(ta_all)), 'B_traces': len(set(tb_all)), 'sample_A': [list(e) for e in sorted(set(ta_all))[0]],
                        'sample_B': [list(e) for e in sorted(set(tb_all))[0]]},
            'functions': sorted(short(x) for x in sk.functions_seen)}


def q_cv_waiter(o, tier):
    """C12.M2: a thread that can block in Condvar::wait (Carrier::hang_until_bitcoind_reachable after a transport error)
    must have a waker in *another* thread. Threads: the chain-monitor thread (poll_best_tip, which hands blocks to the three
    Listen implementations through lightning-block-sync's SpvClient and is the only caller of notify_all) and one API
    handler thread per request. Query: exists a thread class with a reachable wait such that no other thread class notifies."""
    funcs, idx, t_mir, err = load_mir('teos')
    if funcs is None:
        return {'verdict': 'inconclusive', 'reason': 'MIR dump failed'}
    sk = SK.Skeletons(funcs, idx, teos_lock_name, lambda c: None, event_filter=lambda ev: ev[0] in ('wait', 'notify'))
    api, chain_c, chain_d = teos_entries(funcs)
    poll = [n for n in funcs if re.match(r'^chain_monitor::<impl at .*?>::poll_best_tip::\{closure#0\}$', n)]
    if len(poll) != 1 or len(chain_c) != 3 or len(api) < 8:
        return {'verdict': 'inconclusive', 'reason': 'entry points not found'}
    keep = lambda ev: ev[0] in ('wait', 'notify')
    classes = {'chain-monitor thread (poll_best_tip + listeners)': poll + chain_c + chain_d,
               'API handler thread': api}
    facts = {}
    for cname, entries in classes.items():
        waits, notifies = [], []
        for e in entries:
            tr = SK.project(sk.traces(e), keep)
            if any(('wait', 'bitcoind_reachable') in t for t in tr):
                waits.append(short(e))
            if any(ev[0] == 'notify' for t in tr for ev in t):
                notifies.append(short(e))
        facts[cname] = (waits, notifies)
    if sk.problems:
        return {'verdict': 'inconclusive', 'reason': '; '.join(sk.problems[:3])}
    names = list(classes)
    # SMT: c = waiting class; bad iff waits(c) and for all c' != c: not notifies(c')
    text = '(set-logic ALL)\n(declare-const c Int)\n'
    text += '(define-fun waits ((c Int)) Bool (or %s))\n' % ' '.join(['false'] + ['(= c %d)' % i for i, n in enumerate(names) if facts[n][0]])
    text += '(define-fun notifies ((c Int)) Bool (or %s))\n' % ' '.join(['false'] + ['(= c %d)' % i for i, n in enumerate(names) if facts[n][1]])
    text += '(assert (and (>= c 0) (< c %d) (waits c)))\n' % len(names)
    text += '(assert (forall ((d Int)) (=> (and (>= d 0) (< d %d) (not (= d c))) (not (notifies d)))))\n' % len(names)
    text += '(check-sat)\n(get-value (c))\n'
    v, out, dt = smt(text)
    if v == 'inconclusive':
        return {'verdict': 'inconclusive', 'reason': out[:300]}
    if not any(f[0] for f in facts.values()) or not any(f[1] for f in facts.values()):
        return {'verdict': 'inconclusive', 'reason': 'vacuous: no wait or no notify found in the MIR'}
    failed = []
    if v == 'sat':
        c = int(re.search(r'\(c (\d+)\)', out).group(1))
        failed.append({'description': 'condvar wait without a waker in another thread: %s' % names[c],
                       'function': ', '.join(facts[names[c]][0][:4]),
                       'schedule': ['a node RPC issued while a block is being processed fails with a transport error',
                                    'Carrier::flag_bitcoind_unreachable; Carrier::hang_until_bitcoind_reachable waits on the condvar',
                                    'the only notify_all is in poll_best_tip, i.e. in the caller of the waiting listener: nobody wakes the thread']})
    return {'verdict': 'fails' if failed else 'holds', 'failed': failed, 'queries': 1, 'solver_s': dt,
            'witness': {k: {'waits_in': v_[0][:6], 'notifies_in': v_[1][:6]} for k, v_ in facts.items()},
            'functions': sorted(short(x) for x in sk.functions_seen)}


# ------------------------------------------------------------------------------------------------------------ plugin model
def call_short(c):
    """`WTClient::add_pending_appointment`, `RequestError::is_connection`, `<UserId as PartialEq>::eq` -> short names."""
    c = re.sub(r'::<.*?>', '', c)
    m = re.match(r'^<(.+?) as (.+?)>::(\w+)$', c)
    if m:
        return '%s::%s' % (m.group(1).split('::')[-1], m.group(3))
    parts = c.split('::')
    return '::'.join(parts[-2:]) if len(parts) >= 2 else c


def enum_paths(f, start, stop_call=None, limit=200000, sql=False):
    """All paths from block `start` to a `return` (or to a call matching `stop_call`), loops unrolled twice, unwind edges
    not followed. A path is a tuple of facts: ('call', short name), ('branch', short name of the call whose result is
    switched on, value), ('stmt', 'pending') for the coroutine's suspension assignment, ('ok',) / ('err',) for aggregate
    construction of Result::Ok / Result::Err values."""
    out = []
    stack = [(start, (), {}, None)]
    steps = 0
    while stack:
        bb, tr, vis, lastcall = stack.pop()
        steps += 1
        if steps > limit:
            return None
        if vis.get(bb, 0) >= 2:
            continue
        vis = dict(vis)
        vis[bb] = vis.get(bb, 0) + 1
        b = f.blocks[bb]
        for s_ in b.stmts:
            if re.match(r'^_0 = (?:std::task::)?Poll::<.*>::Pending;$', s_):
                tr = tr + (('stmt', 'pending'),)
            m = re.match(r'^_\d+ = (?:std::result::)?Result::<.*>::(Ok|Err)\(', s_)
            if m:
                tr = tr + (('mk', m.group(1)),)
            m = re.match(r'^_\d+ = ((?:RetryError|TowerStatus|RetrierStatus)::\w+)', s_)
            if m:
                tr = tr + (('mk', m.group(1)),)
            if sql:
                m = re.match(r'^_\d+ = const "\s*(INSERT[^"]*)"', s_)
                if m:
                    tr = tr + (('sql',) + sql_insert_policy(m.group(1)),)
        t = b.term
        k = t['kind']
        if k == 'call':
            name = call_short(t['callee'])
            if stop_call and re.search(stop_call, t['callee']):
                out.append(tr + (('stop', name),))
                continue
            tr = tr + (('call', name),)
            if t['next']:
                stack.append((t['next'], tr, vis, (name, t['dest'])))
        elif k == 'switch':
            op = t['operand'].split()[-1]
            for v, tg in t['targets']:
                tr2 = tr
                if lastcall and lastcall[1] == op:
                    tr2 = tr + (('branch', lastcall[0], v),)
                stack.append((tg, tr2, vis, None))
        elif k in ('goto', 'assert', 'drop', 'yield'):
            stack.append((t['next'], tr, vis, lastcall if k == 'goto' else None))
        elif k == 'return':
            out.append(tr + (('return', ''),))
    return sorted(set(out))


def _exists(rows, pred, label):
    """SMT: is there a row (path) satisfying pred? Returns (verdict, index, seconds)."""
    text = '(set-logic ALL)\n(declare-const i Int)\n(define-fun bad ((i Int)) Bool\n'
    for k, r in enumerate(rows):
        text += ' (ite (= i %d) %s\n' % (k, 'true' if pred(r) else 'false')
    text += ' false' + ')' * len(rows) + ')\n(assert (and (>= i 0) (< i %d)))\n(assert (bad i))\n(check-sat)\n(get-value (i))\n' % max(1, len(rows))
    v, out, dt = smt(text)
    i = None
    if v == 'sat':
        i = int(re.search(r'\(i (\d+)\)', out).group(1))
    return v, i, dt, out


def sql_insert_policy(text):
    """('table', 'abort' | 'ignore' | 'replace' | 'upsert') of an INSERT statement: what sqlite does when the row's primary key
    is already present (https://sqlite.org/lang_conflict.html: the default is ABORT = the statement fails)."""
    m = re.match(r'INSERT(?:\s+OR\s+(\w+))?\s+INTO\s+(\w+)', text)
    if not m:
        return ('?', 'abort')
    pol = (m.group(1) or 'abort').lower()
    if pol not in ('ignore', 'replace'):
        pol = 'abort'
    if re.search(r'ON\s+CONFLICT\s*\(.*?\)\s*DO\s+(UPDATE|NOTHING)', text, re.S):
        pol = 'upsert'
    return (m.group(2), pol)


def _store_summary(funcs, name, depth=0):
    """Per path of a client-DBM store function: the list of (table, policy) of the INSERTs whose failure makes the function
    return Err on that path, in order, and the list of inserts that succeeded before ("ok"), as facts for the SMT query:
    [(fail_table_or_None, [tables that must not have failed])]."""
    n = [x for x in funcs if re.match(r'^dbm::<impl at .*?>::%s$' % name, x)]
    if len(n) != 1:
        return None
    f = funcs[n[0]]
    rows = enum_paths(f, min(f.blocks), sql=True)
    if rows is None:
        return None
    out = []
    for r in rows:
        pend, ok, fail, ignore_next = None, [], None, False
        ev = list(r)
        for k, e in enumerate(ev):
            if e[0] == 'sql':
                pend = (e[1], e[2])
            elif e[0] == 'call' and e[1].endswith('::execute') and pend:
                # how is the Result consumed?  `?` = branch (+ from_residual on the Err path), `.ok()` = ignored, unwrap = panic
                nxt = [x[1] for x in ev[k + 1:k + 3] if x[0] == 'call']
                if nxt and nxt[0].endswith('::branch'):
                    if len(nxt) > 1 and nxt[1].endswith('::from_residual'):
                        fail = pend
                    else:
                        ok.append(pend)
                elif nxt and nxt[0].endswith('::unwrap'):
                    ok.append(pend)
                    out.append((('panic',) + pend, list(ok[:-1])))
                pend = None
            elif e[0] == 'call' and e[1].startswith('DBM::store_') and depth == 0:
                nxt = [x[1] for x in ev[k + 1:k + 3] if x[0] == 'call']
                sub = _store_summary(funcs, e[1].split('::')[-1], 1)
                if sub is None:
                    return None
                if nxt and nxt[0].endswith('::branch'):
                    for sf, sok in sub:
                        if sf and len(nxt) > 1 and nxt[1].endswith('::from_residual'):
                            fail = sf
                        elif not sf:
                            ok.extend(sok)
                # `.ok()`: the nested insert may fail or not, nothing follows from it
        out.append((fail, ok))
    return out


def q_insert_conflict(o, tier):
    """C05.M5 / C14.M3: one step of each WTClient recorder from an arbitrary pre-state that satisfies the representation
    invariant (the in-memory mirror of a table has a key iff the table has the row): no path reaches `unwrap()` on the Err of
    a client-DBM store call. A store call returns Err when one of its INSERTs whose result is propagated with `?` hits an
    existing primary key under sqlite's default conflict policy (ABORT); INSERT OR REPLACE / OR IGNORE / ON CONFLICT never
    fail that way. The pre-state booleans (row present per table, key present in the mirror) are the symbolic variables:
    this is what a repeated notification, a retry racing a notification or two replies in flight can produce."""
    funcs, idx, t_mir, err = load_mir('watchtower-plugin', 'lib')
    if funcs is None:
        return {'verdict': 'inconclusive', 'reason': 'MIR dump failed'}
    # recorder -> (store function, mirrored table, call whose result is the mirror test, value of the test when the key is present)
    conf = {
        'add_pending_appointment': ('store_pending_appointment', 'pending_appointments', 'HashSet::insert', False),
        'add_invalid_appointment': ('store_invalid_appointment', 'invalid_appointments', 'HashSet::insert', False),
        'add_appointment_receipt': ('store_appointment_receipt', None, None, None),
        'flag_misbehaving_tower': ('store_misbehaving_proof', 'misbehaving_proofs', 'TowerStatus::is_misbehaving', True),
    }
    # tables whose row must carry the *new* values once the store call returned Ok (the proof is the receipt just received)
    must_write = {'flag_misbehaving_tower': ['appointment_receipts', 'misbehaving_proofs']}
    want = o.get('recorders') or list(conf)
    failed, queries, solver_s, wit = [], 0, 0.0, {}
    for rec in want:
        store, mirror, test, test_when_present = conf[rec]
        n = [x for x in funcs if re.match(r'^wt_client::<impl at .*?>::%s$' % rec, x)]
        summ = _store_summary(funcs, store)
        if len(n) != 1 or not summ:
            return {'verdict': 'inconclusive', 'reason': 'WTClient::%s or DBM::%s not found / not readable' % (rec, store)}
        f = funcs[n[0]]
        rows = enum_paths(f, min(f.blocks))
        if rows is None:
            return {'verdict': 'inconclusive', 'reason': 'path explosion'}
        tables = sorted({t for sf, sok in summ for t in ([sf[-2]] if sf else []) + [x[0] for x in sok]})
        if not tables:
            return {'verdict': 'inconclusive', 'reason': 'no INSERT found in DBM::%s' % store}
        # paths of the recorder on which the store result is unwrapped
        cases = []
        for r in rows:
            ev = list(r)
            for k, e in enumerate(ev):
                if e == ('call', 'DBM::%s' % store):
                    nxt = [x[1] for x in ev[k + 1:k + 2] if x[0] == 'call']
                    unwrapped = bool(nxt) and (nxt[0].endswith('::unwrap') or nxt[0].endswith('::expect'))
                    guard = [x for x in ev[:k] if x[0] == 'branch' and x[1] == test]
                    cases.append((r, unwrapped, guard))
        if not cases:
            return {'verdict': 'inconclusive', 'reason': 'WTClient::%s does not call DBM::%s' % (rec, store)}
        text = '(set-logic ALL)\n(declare-const mirror Bool)\n'
        for t in tables:
            text += '(declare-const row_%s Bool)\n' % t
        if mirror and mirror in tables:
            text += '(assert (= mirror row_%s))\n' % mirror      # representation invariant
        text += '(declare-const c Int)\n(declare-const s Int)\n'
        disj = []
        for ci, (r, unwrapped, guard) in enumerate(cases):
            if not unwrapped:
                continue
            g = []
            for (_, _, v) in guard:
                taken_true = v != '0'
                # test result == test_when_present  <=>  mirror
                g.append('mirror' if taken_true == test_when_present else '(not mirror)')
            for si, (sf, sok) in enumerate(summ):
                if not sf:
                    continue
                pol = sf[-1]
                tb = sf[-2]
                conds = list(g) + ['(= c %d)' % ci, '(= s %d)' % si]
                conds.append('row_%s' % tb if pol == 'abort' else 'false')
                for (t2, p2) in sok:
                    if p2 == 'abort':
                        conds.append('(not row_%s)' % t2)
                disj.append('(and %s)' % ' '.join(conds))
        text += '(assert (or false %s))\n(check-sat)\n(get-model)\n' % ' '.join(disj)
        v, out, dt = smt(text)
        queries += 1
        solver_s += dt
        wit[rec] = {'store': store, 'inserts': sorted({'%s:%s' % (x[-2], x[-1]) for x, _ in summ if x} | {'%s:%s' % y for _, sok in summ for y in sok}),
                    'guarded_by': test if any(gd for _, _, gd in cases) else None, 'unwrapped': any(u for _, u, _ in cases)}
        if v == 'inconclusive':
            return {'verdict': 'inconclusive', 'reason': out[:200]}
        # lost write: the store call succeeds although an INSERT OR IGNORE left an older row in place
        lost = []
        for ci, (r, unwrapped, guard) in enumerate(cases):
            g = []
            for (_, _, v_) in guard:
                g.append('mirror' if (v_ != '0') == test_when_present else '(not mirror)')
            for si, (sf, sok) in enumerate(summ):
                if sf:
                    continue
                for (t2, p2) in sok:
                    if p2 == 'ignore' and t2 in must_write.get(rec, []):
                        conds = list(g) + ['row_%s' % t2] + ['(not row_%s)' % t3 for (t3, p3) in sok if p3 == 'abort']
                        lost.append((t2, '(and %s)' % ' '.join(conds)))
        if lost:
            text2 = text[:text.index('(declare-const c Int)')] + '(assert (or false %s))\n(check-sat)\n(get-model)\n' % ' '.join(x[1] for x in lost)
            v2, out2, dt2 = smt(text2)
            queries += 1
            solver_s += dt2
            if v2 == 'inconclusive':
                return {'verdict': 'inconclusive', 'reason': out2[:200]}
            if v2 == 'sat':
                pre = {m_.group(1): m_.group(2) for m_ in re.finditer(r'define-fun (mirror|row_\w+) \(\) Bool\s+(true|false)', out2)}
                failed.append({'description': 'WTClient::%s reports success although DBM::%s keeps an older row of table %s (INSERT OR IGNORE): what was to be persisted is silently dropped'
                                              % (rec, store, lost[0][0]),
                               'function': 'WTClient::%s' % rec, 'pre_state': pre})
        if v == 'sat':
            ci = int(re.search(r'define-fun c \(\) Int\s+(\d+)', out).group(1))
            si = int(re.search(r'define-fun s \(\) Int\s+(\d+)', out).group(1))
            pre = {m_.group(1): m_.group(2) for m_ in re.finditer(r'define-fun (mirror|row_\w+) \(\) Bool\s+(true|false)', out)}
            failed.append({'description': 'WTClient::%s can unwrap() a primary-key conflict of DBM::%s (table %s) when the record is already there: panic with the client state locked'
                                          % (rec, store, summ[si][0][-2]),
                           'function': 'WTClient::%s' % rec, 'pre_state': pre,
                           'schedule': [list(e) for e in cases[ci][0] if e[0] != 'stmt']})
    return {'verdict': 'fails' if failed else 'holds', 'failed': failed, 'queries': queries, 'solver_s': solver_s,
            'witness': wit, 'functions': ['watchtower_plugin::wt_client::WTClient::{%s}' % ','.join(want),
                                          'watchtower_plugin::dbm::DBM::store_*']}


RECORDERS = ('WTClient::add_appointment_receipt', 'WTClient::add_pending_appointment', 'WTClient::add_invalid_appointment',
             'WTClient::flag_misbehaving_tower')


def q_plugin_must_record(o, tier):
    """C05.M1: in the commitment-revocation hook, for every tower, every way the request to that tower can end (and every
    tower that is not contacted because of its status) records the appointment exactly once as accepted / pending /
    invalid, or flags the tower as misbehaving; towers already known to misbehave are skipped."""
    funcs, idx, t_mir, err = load_mir('watchtower-plugin', 'bin', 'watchtower-client')
    if funcs is None:
        return {'verdict': 'inconclusive', 'reason': 'MIR dump failed: %s' % (err or '')[-300:]}
    f = funcs.get('on_commitment_revocation::{closure#0}')
    if f is None:
        return {'verdict': 'inconclusive', 'reason': 'on_commitment_revocation not found'}
    poll = [b for b in f.blocks.values() if b.term['kind'] == 'call' and re.search(r'http::add_appointment\(\)\} as Future>::poll', b.term['callee'])]
    reach = [b for b in f.blocks.values() if b.term['kind'] == 'call' and re.search(r'TowerStatus::is_reachable$', b.term['callee'])]
    if len(poll) != 1 or len(reach) != 1:
        return {'verdict': 'inconclusive', 'reason': 'anchor calls not found (poll=%d, is_reachable=%d)' % (len(poll), len(reach))}
    stop = r'IntoIter<\(TowerId, NetAddr, TowerStatus\)> as Iterator>::next'
    rows_a = enum_paths(f, poll[0].term['next'], stop)
    rows_b = enum_paths(f, reach[0].id, stop)
    if rows_a is None or rows_b is None:
        return {'verdict': 'inconclusive', 'reason': 'path explosion'}
    rows_a = [r for r in rows_a if ('stmt', 'pending') not in r]                       # request completed
    rows_b = [r for r in rows_b if ('branch', 'TowerStatus::is_reachable', '0') in r]  # tower not contacted

    def n_rec(r):
        return sum(1 for e in r if e[0] == 'call' and e[1] in RECORDERS)
    part = o.get('part', 'both')
    if part == 'reply':
        rows_b = [r for r in rows_b][:0] or [(('call', 'WTClient::add_pending_appointment'),)]
    if part == 'skipped':
        rows_a = [r for r in rows_a if n_rec(r) == 1][:1]
    failed, queries, solver_s = [], 0, 0.0
    if not rows_a or not rows_b or not any(n_rec(r) == 1 for r in rows_a):
        return {'verdict': 'inconclusive', 'reason': 'vacuous: %d/%d paths' % (len(rows_a), len(rows_b))}
    # (a) after the tower's reply
    v, i, dt, out = _exists(rows_a, lambda r: n_rec(r) != 1 and not any(e == ('call', 'RequestError::is_connection') for e in r), 'a')
    queries += 1
    solver_s += dt
    if v == 'inconclusive':
        return {'verdict': 'inconclusive', 'reason': out[:200]}
    if v == 'sat':
        failed.append({'description': 'a tower reply can be handled without recording the appointment exactly once (accepted / pending / invalid / misbehaving)',
                       'function': 'on_commitment_revocation', 'schedule': [list(e) for e in rows_a[i]]})
    v, i, dt, out = _exists(rows_a, lambda r: n_rec(r) != 1 and any(e == ('call', 'RequestError::is_connection') for e in r), 'a2')
    queries += 1
    solver_s += dt
    if v == 'sat':
        failed.append({'description': 'a request error that is not a connection error leaves the appointment unrecorded',
                       'function': 'on_commitment_revocation', 'schedule': [list(e) for e in rows_a[i]]})
    # (b) towers that are not contacted: pending unless misbehaving
    v, i, dt, out = _exists(rows_b, lambda r: n_rec(r) != (0 if any(e[0] == 'branch' and e[1] == 'TowerStatus::is_misbehaving' and e[2] != '0' for e in r) else 1), 'b')
    queries += 1
    solver_s += dt
    if v == 'sat':
        failed.append({'description': 'a tower that is not contacted (unreachable / subscription error) does not get the appointment as pending, or a misbehaving tower is still served',
                       'function': 'on_commitment_revocation', 'schedule': [list(e) for e in rows_b[i]]})
    return {'verdict': 'fails' if failed else 'holds', 'failed': failed, 'queries': queries, 'solver_s': solver_s,
            'witness': {'paths_after_reply': len(rows_a), 'paths_not_contacted': len(rows_b),
                        'sample': [list(e) for e in rows_a[0] if e[0] != 'stmt'][:12]},
            'functions': ['watchtower-client::on_commitment_revocation']}


def q_plugin_register_verify(o, tier):
    """C14.M1: `register` stores a tower (WTClient::add_update_tower) only on paths on which RegistrationReceipt::verify
    returned true."""
    funcs, idx, t_mir, err = load_mir('watchtower-plugin', 'bin', 'watchtower-client')
    if funcs is None:
        return {'verdict': 'inconclusive', 'reason': 'MIR dump failed'}
    f = funcs.get('register::{closure#0}')
    if f is None:
        return {'verdict': 'inconclusive', 'reason': 'register not found'}
    rows = enum_paths(f, 'bb0', r'WTClient::add_update_tower$')
    if rows is None:
        return {'verdict': 'inconclusive', 'reason': 'path explosion'}
    rows = [r for r in rows if r[-1][0] == 'stop']
    if not rows:
        return {'verdict': 'inconclusive', 'reason': 'vacuous: add_update_tower is not reachable'}
    ok = lambda r: any(e[0] == 'branch' and e[1] == 'RegistrationReceipt::verify' and e[2] != '0' for e in r)
    v, i, dt, out = _exists(rows, lambda r: not ok(r), 'reg')
    if v == 'inconclusive':
        return {'verdict': 'inconclusive', 'reason': out[:200]}
    failed = []
    if v == 'sat':
        failed.append({'description': 'a registration receipt can be stored without its signature having been verified against the tower id',
                       'function': 'watchtower-client::register', 'schedule': [list(e) for e in rows[i]][-12:]})
    return {'verdict': 'fails' if failed else 'holds', 'failed': failed, 'queries': 1, 'solver_s': dt,
            'witness': {'paths_to_add_update_tower': len(rows), 'sample': [list(e) for e in rows[0] if e[0] == 'branch']},
            'functions': ['watchtower-client::register']}


def q_plugin_send_appointment(o, tier):
    """C14.M2: `send_appointment` yields Ok only on paths on which the id recovered from the tower's signature equals the
    tower id; every other completed path yields an error. Witness for F12: the recovered key is unwrap()ed."""
    funcs, idx, t_mir, err = load_mir('watchtower-plugin', 'lib')
    if funcs is None:
        return {'verdict': 'inconclusive', 'reason': 'MIR dump failed'}
    name = [n for n in funcs if re.match(r'^(?:net::http::)?send_appointment::\{closure#0\}$', n)]
    if len(name) != 1:
        return {'verdict': 'inconclusive', 'reason': 'send_appointment not found'}
    f = funcs[name[0]]
    rows = enum_paths(f, 'bb0')
    if rows is None:
        return {'verdict': 'inconclusive', 'reason': 'path explosion'}
    rows = [r for r in rows if ('stmt', 'pending') not in r]
    oks = [r for r in rows if ('mk', 'Ok') in r and ('mk', 'Err') not in r]
    if not oks:
        return {'verdict': 'inconclusive', 'reason': 'vacuous: no Ok path found (%d paths)' % len(rows)}
    good = lambda r: any(e[0] == 'branch' and e[1] in ('UserId::eq', 'TowerId::eq') and e[2] != '0' for e in r)
    v, i, dt, out = _exists(oks, lambda r: not good(r), 'send')
    if v == 'inconclusive':
        return {'verdict': 'inconclusive', 'reason': out[:200]}
    failed = []
    if v == 'sat':
        failed.append({'description': 'an appointment acknowledgement can be accepted without the recovered signer being compared with the tower id',
                       'function': 'watchtower_plugin::net::http::send_appointment', 'schedule': [list(e) for e in oks[i]][-14:]})
    # every completed path through the "the tower acknowledged" arm (ApiResponse::Response, variant 0) recovers the signer:
    # nothing the tower controls (echoed locator, slots, expiry) may end the function before the signature was looked at,
    # otherwise a wrongly signed acknowledgement is not flagged as misbehaviour
    api_locals = {l for l, t in f.locals.items() if re.match(r'^(?:net::http::)?ApiResponse<', t.strip())}
    for b_ in f.blocks.values():          # locals declared in inner scopes: typed by the place expression they are moved from
        for s_ in b_.stmts:
            m_ = re.match(r'^(_\d+) = (?:move|copy) \(.*: (?:net::http::)?ApiResponse<[^()]*\);$', s_)
            if m_:
                api_locals.add(m_.group(1))
    ack_paths, stack, steps = [], [('bb0', (), {})], 0
    while stack and api_locals:
        bb, tr, vis = stack.pop()
        steps += 1
        if steps > 400000:
            return {'verdict': 'inconclusive', 'reason': 'path explosion'}
        if vis.get(bb, 0) >= 2:
            continue
        vis = dict(vis)
        vis[bb] = vis.get(bb, 0) + 1
        b = f.blocks[bb]
        disc = {}
        for s_ in b.stmts:
            m = re.match(r'^(_\d+) = discriminant\((_\d+)\);$', s_)
            if m and m.group(2) in api_locals:
                disc[m.group(1)] = m.group(2)
            if re.match(r'^_0 = (?:std::task::)?Poll::<.*>::Pending;$', s_):
                tr = tr + (('pending',),)
        t = b.term
        if t['kind'] == 'call':
            if re.search(r'(?:^|::)recover_pk$', t['callee']):
                tr = tr + (('recover',),)
            if t['next']:
                stack.append((t['next'], tr, vis))
        elif t['kind'] == 'switch':
            op = t['operand'].strip().split()[-1]
            for v_, tg in t['targets']:
                stack.append((tg, tr + ((('api', v_),) if op in disc else ()), vis))
        elif t['kind'] in ('goto', 'drop', 'assert', 'yield'):
            stack.append((t['next'], tr, vis))
        elif t['kind'] == 'return':
            ack_paths.append(tr)
    ack_paths = sorted({p_ for p_ in ack_paths if ('api', '0') in p_ and ('pending',) not in p_})
    queries = 1
    if not api_locals or not ack_paths or not any(('recover',) in p_ for p_ in ack_paths):
        return {'verdict': 'inconclusive', 'reason': 'vacuous: acknowledgement arm not found (%d locals, %d paths)' % (len(api_locals), len(ack_paths))}
    v2, i2, dt2, out2 = _exists(ack_paths, lambda p_: ('recover',) not in p_, 'ack')
    queries += 1
    dt += dt2
    if v2 == 'sat':
        failed.append({'description': 'an acknowledgement of the tower can end send_appointment before the signer of its signature was recovered: a wrongly signed acknowledgement is not flagged as misbehaviour',
                       'function': 'watchtower_plugin::net::http::send_appointment', 'schedule': [list(e) for e in ack_paths[i2]]})
    # F12 witness: Result<PublicKey, _>::unwrap applied to the result of recover_pk
    unwraps = [b for b in f.blocks.values() if b.term['kind'] == 'call' and re.search(r'Result::<(?:bitcoin::secp256k1::)?PublicKey, .*>::unwrap$', b.term['callee'])]
    rec = [b for b in f.blocks.values() if b.term['kind'] == 'call' and re.search(r'(?:^|::)recover_pk$', b.term['callee'])]
    if rec and unwraps and any(u.term['args'] and u.term['args'][0].split()[-1] == r_.term['dest'] for u in unwraps for r_ in rec):
        failed.append({'description': 'the key recovered from the tower-supplied signature is unwrap()ed: a signature that does not decode panics the client',
                       'function': 'watchtower_plugin::net::http::send_appointment', 'schedule': ['tower replies 200 with a signature string that is not valid zbase32 / not a recoverable signature', 'cryptography::recover_pk -> Err', 'Result::unwrap panics']})
    return {'verdict': 'fails' if failed else 'holds', 'failed': failed, 'queries': queries, 'solver_s': dt,
            'witness': {'ok_paths': len(oks), 'paths': len(rows), 'acknowledgement_paths': len(ack_paths), 'sample': [list(e) for e in oks[0] if e[0] in ('branch', 'mk')]},
            'functions': ['watchtower_plugin::net::http::send_appointment']}


def q_retrier_run(o, tier):
    """C05/C13/C14 on the retry path (`Retrier::run`): every way a re-sent appointment can be answered is book-kept in the
    order that never loses it: accepted => receipt stored *before* the pending record is removed; rejected by the tower =>
    stored as invalid *before* the pending record is removed; connection error / subscription error => the pending
    record is kept and the run ends with an error; re-registration is stored only after the receipt verified."""
    funcs, idx, t_mir, err = load_mir('watchtower-plugin', 'lib')
    if funcs is None:
        return {'verdict': 'inconclusive', 'reason': 'MIR dump failed'}
    name = [n for n in funcs if re.match(r'^retrier::<impl at .*?>::run::\{closure#0\}$', n)]
    if len(name) != 1:
        return {'verdict': 'inconclusive', 'reason': 'Retrier::run not found'}
    f = funcs[name[0]]
    poll = [b for b in f.blocks.values() if b.term['kind'] == 'call' and re.search(r'http::add_appointment\(\)\} as (?:std::future::)?Future>::poll', b.term['callee'])]
    if len(poll) != 1:
        return {'verdict': 'inconclusive', 'reason': 'anchor not found (poll=%d)' % len(poll)}
    stop = r'IntoIter<Locator> as Iterator>::next'
    rows = enum_paths(f, poll[0].term['next'], stop)
    if rows is None:
        return {'verdict': 'inconclusive', 'reason': 'path explosion'}
    rows = [r for r in rows if ('stmt', 'pending') not in r]

    def calls(r):
        return [e[1] for e in r if e[0] == 'call']

    def before(r, a, b):
        c = calls(r)
        return a in c and b in c and c.index(a) < c.index(b)
    REC, INV, RM = 'WTClient::add_appointment_receipt', 'WTClient::add_invalid_appointment', 'WTClient::remove_pending_appointment'
    part = o.get('part')
    failed, queries, solver_s = [], 0, 0.0
    if not rows or not any(REC in calls(r) for r in rows) or not any(INV in calls(r) for r in rows):
        return {'verdict': 'inconclusive', 'reason': 'vacuous: %d paths' % len(rows)}
    if part == 'bookkeeping':
        # a path that removes the pending record must have stored the receipt or the invalid copy first, exactly one of them
        bad = lambda r: RM in calls(r) and not ((before(r, REC, RM) and INV not in calls(r)) or (before(r, INV, RM) and REC not in calls(r)))
        v, i, dt, out = _exists(rows, bad, 'rm')
        queries += 1
        solver_s += dt
        if v == 'inconclusive':
            return {'verdict': 'inconclusive', 'reason': out[:200]}
        if v == 'sat':
            failed.append({'description': 'a pending appointment can be removed without its receipt / invalid copy having been stored first',
                           'function': 'Retrier::run', 'schedule': [list(e) for e in rows[i]][-14:]})
        # a path that stores a receipt or an invalid copy also removes the pending record (pending -> accepted / invalid, exactly one)
        bad2 = lambda r: (REC in calls(r) or INV in calls(r)) and RM not in calls(r)
        v, i, dt, out = _exists(rows, bad2, 'keep')
        queries += 1
        solver_s += dt
        if v == 'sat':
            failed.append({'description': 'an appointment can end up both pending and accepted/invalid for the same tower',
                           'function': 'Retrier::run', 'schedule': [list(e) for e in rows[i]][-14:]})
    elif part == 'errors_keep_pending':
        # connection errors and subscription errors end the run and never touch the pending record
        is_conn = lambda r: any(e[0] == 'branch' and e[1] == 'RequestError::is_connection' and e[2] != '0' for e in r)
        is_sub = lambda r: ('mk', 'RetryError::Subscription') in r
        # a subscription error found by the retrier must also be recorded as the tower's status (the re-registration at
        # the top of the next run is gated on it)
        sub_ok = lambda r: 'WTClient::set_tower_status' in calls(r) and ('mk', 'TowerStatus::SubscriptionError') in r
        bad = lambda r: ((is_conn(r) or is_sub(r)) and (RM in calls(r) or r[-1][0] != 'return' or ('mk', 'Err') not in r)) or (is_sub(r) and not sub_ok(r))
        if not any(is_conn(r) for r in rows) or not any(is_sub(r) for r in rows):
            return {'verdict': 'inconclusive', 'reason': 'vacuous: error paths not found'}
        v, i, dt, out = _exists(rows, bad, 'err')
        queries += 1
        solver_s += dt
        if v == 'inconclusive':
            return {'verdict': 'inconclusive', 'reason': out[:200]}
        if v == 'sat':
            failed.append({'description': 'a connection or subscription error on the retry path drops the pending record, does not end the run with an error, or (subscription error) is not recorded as the tower status',
                           'function': 'Retrier::run', 'schedule': [list(e) for e in rows[i]][-14:]})
    elif part == 'reregister_verify':
        rows2 = enum_paths(f, 'bb0', r'WTClient::add_update_tower$')
        if rows2 is None:
            return {'verdict': 'inconclusive', 'reason': 'path explosion'}
        rows2 = [r for r in rows2 if r[-1][0] == 'stop']
        if not rows2:
            return {'verdict': 'inconclusive', 'reason': 'vacuous: add_update_tower not reachable'}
        ok = lambda r: any(e[0] == 'branch' and e[1] == 'RegistrationReceipt::verify' and e[2] != '0' for e in r)
        v, i, dt, out = _exists(rows2, lambda r: not ok(r), 'rereg')
        queries += 1
        solver_s += dt
        if v == 'inconclusive':
            return {'verdict': 'inconclusive', 'reason': out[:200]}
        if v == 'sat':
            failed.append({'description': 'the retrier can store a renewed registration without its signature having been verified against the tower id',
                           'function': 'Retrier::run', 'schedule': [list(e) for e in rows2[i]][-12:]})
        rows = rows2
    return {'verdict': 'fails' if failed else 'holds', 'failed': failed, 'queries': queries, 'solver_s': solver_s,
            'witness': {'paths': len(rows), 'sample': [list(e) for e in rows[0] if e[0] in ('call', 'branch')][-10:]},
            'functions': ['watchtower_plugin::retrier::Retrier::run']}


def q_responder_block_order(o, tier):
    """C04.P5 (composition, call level): in Responder::filtered_block_connected the refunding deletion
    `delete_appointments(_, true)` is reachable only after check_confirmations and before the reorg/rebroadcast handling, the
    non-refunding `delete_appointments(_, false)` only after handle_reorged_txs or rebroadcast_stale_txs; these are the only
    two deletion sites; every completed path updates the carrier height and the tx index first and clears the carrier's
    receipts last; and every path on which a step handed trackers over for deletion (Vec::extend) reaches the non-refunding
    deletion."""
    funcs, idx, t_mir, err = load_mir('teos')
    if funcs is None:
        return {'verdict': 'inconclusive', 'reason': 'MIR dump failed'}
    name = [n for n in funcs if re.match(r'^responder::<impl at .*?>::filtered_block_connected$', n)]
    if len(name) != 1:
        return {'verdict': 'inconclusive', 'reason': 'entry not found'}
    f = funcs[name[0]]
    dels = [b for b in f.blocks.values() if b.term['kind'] == 'call' and re.search(r'Gatekeeper::delete_appointments(_refund|_norefund|_dynamic)?$', b.term['callee'])]
    kinds = sorted(b.term['args'][-1] for b in dels)
    # record the refund flag in the call name so that paths can tell the two sites apart
    for b in dels:
        if not b.term['callee'].endswith('delete_appointments'):
            continue
        b.term = dict(b.term)
        b.term['callee'] = b.term['callee'] + ('_refund' if b.term['args'][-1] == 'const true' else '_norefund' if b.term['args'][-1] == 'const false' else '_dynamic')
    rows = enum_paths(f, 'bb0')
    if rows is None:
        return {'verdict': 'inconclusive', 'reason': 'path explosion'}

    def calls(r):
        return [e[1] for e in r if e[0] == 'call']

    def pos(c, n):
        return c.index(n) if n in c else None
    CC, HR, RB = 'Responder::check_confirmations', 'Responder::handle_reorged_txs', 'Responder::rebroadcast_stale_txs'
    DR, DN = 'Gatekeeper::delete_appointments_refund', 'Gatekeeper::delete_appointments_norefund'
    UH, UP, CR = 'Carrier::update_height', 'BlockHash>::update', 'Carrier::clear_receipts'

    def bad(r):
        c = calls(r)
        if any(x.endswith('delete_appointments_dynamic') for x in c):
            return True
        if DR in c and not (CC in c and c.index(CC) < c.index(DR) and (RB not in c or c.index(DR) < c.index(RB))):
            return True
        if DN in c and not ((HR in c and c.index(HR) < c.index(DN)) or (RB in c and c.index(RB) < c.index(DN))):
            return True
        if c.count(DR) > 1 or c.count(DN) > 1:
            return True
        # whatever a step hands over for deletion (Vec::extend of the rejected trackers) reaches the non-refunding deletion,
        # unless the collected list is tested and found empty
        ext = [k for k, x in enumerate(c) if x == 'Vec::extend' or re.search(r'Vec<.*> as Extend<.*>>::extend', x)]
        if ext and DN not in c[ext[-1] + 1:] and not any(e[0] == 'branch' and e[1] == 'Vec::is_empty' and e[2] != '0' for e in r):
            return True
        if not (CC in c and RB in c and UH in c and CR in c and c.index(UH) < c.index(CC) and c.index(RB) < c.index(CR)):
            return True
        if not any(x.endswith('::update') for x in c[:c.index(CC)]):
            return True
        return False
    if kinds != ['const false', 'const true'] or not rows:
        return {'verdict': 'fails', 'failed': [{'description': 'Responder::filtered_block_connected does not have exactly one refunding and one non-refunding deletion site (found %s)' % kinds, 'function': 'Responder::filtered_block_connected'}], 'queries': 0, 'solver_s': 0.0}
    v, i, dt, out = _exists(rows, bad, 'order')
    if v == 'inconclusive':
        return {'verdict': 'inconclusive', 'reason': out[:200]}
    failed = []
    if v == 'sat':
        failed.append({'description': 'block handling order broken: a deletion is reachable without the step that justifies it, or height/index/receipt bookkeeping is skipped or misplaced',
                       'function': 'Responder::filtered_block_connected', 'schedule': [e[1] for e in rows[i] if e[0] == 'call' and ('Responder::' in e[1] or 'Gatekeeper::' in e[1] or 'Carrier::' in e[1] or e[1].endswith('::update'))]})
    return {'verdict': 'fails' if failed else 'holds', 'failed': failed, 'queries': 1, 'solver_s': dt,
            'witness': {'paths': len(rows), 'sample': [e[1] for e in rows[-1] if e[0] == 'call' and ('Responder::' in e[1] or 'Gatekeeper::' in e[1] or 'Carrier::' in e[1] or e[1].endswith('::update'))]},
            'functions': ['Responder::filtered_block_connected']}


def q_double_charge(o, tier):
    """C10.M2: two concurrent submissions of the same (new) appointment. Thread A and thread B both run
    Watcher::add_appointment. Bad run: each thread reads "no such appointment yet" (DBM::get_appointment_length, inside
    Gatekeeper::add_update_appointment) before the other one has written the row (DBM::store_appointment /
    update_appointment): both are charged for one stored appointment."""
    funcs, idx, t_mir, err = load_mir('teos')
    if funcs is None:
        return {'verdict': 'inconclusive', 'reason': 'MIR dump failed'}

    def alpha(c):
        m = re.match(r'^DBM::(store_appointment|update_appointment|get_appointment_length)$', c)
        if m:
            return 'DBM::' + m.group(1)
        return None
    sk = SK.Skeletons(funcs, idx, teos_lock_name, alpha,
                      event_filter=lambda ev: ev[0] == 'call' or (ev[0] in ('acq', 'rel') and ev[1] in ('locator_cache', 'users')))
    fa = [n for n in funcs if re.match(r'^watcher::<impl at .*?>::add_appointment$', n)]
    if len(fa) != 1:
        return {'verdict': 'inconclusive', 'reason': 'entry point not found'}
    tr = [t for t in sk.traces(fa[0]) if ('call', 'DBM::get_appointment_length') in t and (('call', 'DBM::store_appointment') in t or ('call', 'DBM::update_appointment') in t)]
    tr = sorted(set(tr))
    if sk.problems or not tr:
        return {'verdict': 'inconclusive', 'reason': 'skeleton not found: %s (%d traces)' % (sk.problems[:2], len(tr))}
    failed, queries, solver_s = [], 0, 0.0
    for ta in tr:
        ia_len = ta.index(('call', 'DBM::get_appointment_length'))
        ia_st = [k for k, e in enumerate(ta) if e in (('call', 'DBM::store_appointment'), ('call', 'DBM::update_appointment'))]
        for tb in tr:
            ib_len = tb.index(('call', 'DBM::get_appointment_length'))
            ib_st = [k for k, e in enumerate(tb) if e in (('call', 'DBM::store_appointment'), ('call', 'DBM::update_appointment'))]
            text = _interleave_query(ta, tb, [('a', ia_len, 'b', min(ib_st)), ('b', ib_len, 'a', min(ia_st))], None)
            v, out, dt = smt(text)
            queries += 1
            solver_s += dt
            if v == 'inconclusive':
                return {'verdict': 'inconclusive', 'reason': out[:200]}
            if v == 'sat':
                failed.append({'description': 'double charge: two concurrent submissions of one appointment can both read "not stored yet" before either stores it',
                               'function': 'Watcher::add_appointment | Watcher::add_appointment',
                               'schedule': {'A': [list(e) for e in ta], 'B': [list(e) for e in tb], 'model': out[:500]}})
                break
        if failed:
            break
    return {'verdict': 'fails' if failed else 'holds', 'failed': failed, 'queries': queries, 'solver_s': solver_s,
            'witness': {'traces': len(tr), 'sample': [list(e) for e in tr[0]]}, 'functions': sorted(short(x) for x in sk.functions_seen)}


def q_purge_race(o, tier):
    """C11.M2: thread A = an API handler of the Watcher (add_appointment / get_appointment / get_subscription_info), thread B =
    the Gatekeeper's block connection that purges outdated users (HashMap::remove under the users lock). A authenticates the
    user (first critical section on `users`) and looks the same user up again (second critical section). Bad run: B's removal
    is ordered after A's authentication section and before A's next look-up, and A unwraps that look-up: the handler panics.
    Every unwrap of a user-dependent Option/Result after the authentication section is examined, whether it sits after a
    look-up (has_subscription_expired / get_user_info) or inside a later users section (get_mut().unwrap()): heights can jump
    past expiry + grace within one request (catch-up after an outage while the request waits for a lock, forced update)."""
    funcs, idx, t_mir, err = load_mir('teos')
    if funcs is None:
        return {'verdict': 'inconclusive', 'reason': 'MIR dump failed'}

    def alpha(c):
        if re.search(r'Gatekeeper::authenticate_user$', c):
            return 'auth'
        if re.search(r'Gatekeeper::(has_subscription_expired|get_user_info)$', c):
            return 'user.lookup'
        if re.search(r'^(?:std::result::|std::option::)?(?:Result|Option)::<.*(?:AuthenticationFailure|UserInfo).*>::(unwrap|expect)$', c):
            return 'user.unwrap'
        if re.search(r'HashMap::<(?:UserId|TowerId), UserInfo>::(remove|retain|clear)(?:::<.*>)?$', re.sub(r'(?:teos_common::|gatekeeper::|std::collections::|hash_map::)', '', c)):
            return 'user.remove'
        return None
    # Gatekeeper::delete_appointments is reached from the handlers only through store_triggered_appointment, with
    # `refund = const false`: its refunding branch (which looks users up) is not part of a handler. Checked on the MIR.
    st = [n for n in funcs if re.match(r'^watcher::<impl at .*?>::store_triggered_appointment$', n)]
    for n in st:
        for b_ in funcs[n].blocks.values():
            if b_.term['kind'] == 'call' and re.search(r'Gatekeeper::delete_appointments$', b_.term['callee']) and (not b_.term.get('args') or b_.term['args'][-1].strip() != 'const false'):
                return {'verdict': 'inconclusive', 'reason': 'store_triggered_appointment calls delete_appointments with a non-constant refund flag'}
    sk = SK.Skeletons(funcs, idx, teos_lock_name, alpha,
                      inline_filter=lambda t: not re.search(r'gatekeeper::<impl at .*?>::delete_appointments$', t),
                      event_filter=lambda ev: ev[0] == 'call' or (ev[0] in ('acq', 'rel') and ev[1] == 'users'))
    fb = [n for n in funcs if re.match(r'^gatekeeper::<impl at .*?>::filtered_block_connected$', n)]
    if len(fb) != 1:
        return {'verdict': 'inconclusive', 'reason': 'Gatekeeper::filtered_block_connected not found'}
    tb_all = sorted(t for t in set(sk.traces(fb[0])) if ('call', 'user.remove') in t)
    if not tb_all:
        return {'verdict': 'inconclusive', 'reason': 'no purge (HashMap::remove on the users map) found in Gatekeeper::filtered_block_connected'}
    failed, queries, solver_s, wit = [], 0, 0.0, {}
    for entry in ('add_appointment', 'get_appointment', 'get_subscription_info'):
        fa = [n for n in funcs if re.match(r'^watcher::<impl at .*?>::%s$' % entry, n)]
        if len(fa) != 1:
            return {'verdict': 'inconclusive', 'reason': 'Watcher::%s not found' % entry}
        ta_all = sorted(t for t in set(sk.traces(fa[0])) if ('call', 'auth') in t and ('call', 'user.lookup') in t)
        if sk.problems or not ta_all:
            return {'verdict': 'inconclusive', 'reason': 'skeleton of Watcher::%s not found: %s' % (entry, sk.problems[:2])}
        wit[entry] = {'traces': len(ta_all), 'sample': [list(e) for e in ta_all[0]][:14]}
        hit = False
        for ta in ta_all:
            ia = ta.index(('call', 'auth'))
            rel_auth = next((k for k in range(ia, len(ta)) if ta[k] == ('rel', 'users')), None)
            if rel_auth is None:
                continue
            # every unwrap of a user-dependent value after the authentication section: which users section produced it?
            for k in range(rel_auth + 1, len(ta)):
                if ta[k] != ('call', 'user.unwrap'):
                    continue
                acqs = [j for j in range(rel_auth + 1, k) if ta[j] == ('acq', 'users')]
                if not acqs:
                    continue
                acq_k = acqs[-1]        # inside that section (get_mut().unwrap()) or right after it (look-up().unwrap())
                between = [j for j in range(acq_k, k) if ta[j] == ('acq', 'users')]
                if len(between) != 1:
                    continue
                for tb in tb_all:
                    ir = tb.index(('call', 'user.remove'))
                    text = _interleave_query(ta, tb, [('a', rel_auth, 'b', ir), ('b', ir, 'a', acq_k)], None)
                    v, out, dt = smt(text)
                    queries += 1
                    solver_s += dt
                    if v == 'inconclusive':
                        return {'verdict': 'inconclusive', 'reason': out[:200]}
                    if v == 'sat':
                        inside = not any(ta[j] == ('rel', 'users') for j in range(acq_k, k))
                        failed.append({'description': 'Watcher::%s unwraps a look-up of the user it authenticated in an earlier critical section%s: a block that purges the user in between aborts the handler'
                                                      % (entry, ' (with the users lock held: the mutex is poisoned)' if inside else ''),
                                       'function': 'Watcher::%s | Gatekeeper::filtered_block_connected' % entry,
                                       'schedule': {'A': [list(e) for e in ta], 'B': [list(e) for e in tb], 'unwrap_at': k, 'model': out[:400]}})
                        hit = True
                        break
                if hit:
                    break
            if hit:
                break
        if not hit and not queries:
            # nothing is unwrapped: one (trivially unsat) query documents it
            v, out, dt = smt('(set-logic ALL)\n(assert false)\n(check-sat)\n')
            queries += 1
            solver_s += dt
    return {'verdict': 'fails' if failed else 'holds', 'failed': failed, 'queries': queries, 'solver_s': solver_s,
            'witness': wit, 'functions': sorted(short(x) for x in sk.functions_seen)}


def q_purge_vs_store(o, tier):
    """C11.M3: thread A = Watcher::add_appointment, thread B = the Gatekeeper's block connection that purges outdated users
    (memory first, then DBM::batch_remove_users, which cascades to the user's appointments). A charges the slots (users
    section inside Gatekeeper::add_update_appointment) and stores the row later (DBM::store_appointment /
    update_appointment under the dbm lock). Bad run: B removes the user after A's charge and deletes the user's rows before
    A's store, so the store violates the foreign key (or updates nothing) and A unwraps the error with the dbm and
    locator-cache locks held: both mutexes are poisoned and the tower stops serving."""
    funcs, idx, t_mir, err = load_mir('teos')
    if funcs is None:
        return {'verdict': 'inconclusive', 'reason': 'MIR dump failed'}

    def alpha(c):
        if re.search(r'Gatekeeper::add_update_appointment$', c):
            return 'charge'
        m = re.match(r'^DBM::(store_appointment|update_appointment|batch_remove_users)$', c)
        if m:
            return 'DBM::' + m.group(1)
        if re.search(r'^(?:std::result::)?Result::<.*(?:rusqlite::Error|dbm::Error)>::(unwrap|expect)$', c):
            return 'sql.unwrap'
        if re.search(r'HashMap::<(?:UserId|TowerId), UserInfo>::(remove|retain|clear)(?:::<.*>)?$', re.sub(r'(?:teos_common::|gatekeeper::|std::collections::|hash_map::)', '', c)):
            return 'user.remove'
        return None
    sk = SK.Skeletons(funcs, idx, teos_lock_name, alpha,
                      inline_filter=lambda t: not re.match(r'^dbm::', t) and not re.search(r'gatekeeper::<impl at .*?>::delete_appointments$', t),
                      event_filter=lambda ev: ev[0] == 'call' or (ev[0] in ('acq', 'rel') and ev[1] in ('users', 'dbm')))
    fa = [n for n in funcs if re.match(r'^watcher::<impl at .*?>::add_appointment$', n)]
    fb = [n for n in funcs if re.match(r'^gatekeeper::<impl at .*?>::filtered_block_connected$', n)]
    if len(fa) != 1 or len(fb) != 1:
        return {'verdict': 'inconclusive', 'reason': 'entry points not found'}
    stores = (('call', 'DBM::store_appointment'), ('call', 'DBM::update_appointment'))
    ta_all = sorted(t for t in set(sk.traces(fa[0])) if ('call', 'charge') in t and any(e in t for e in stores))
    tb_all = sorted(t for t in set(sk.traces(fb[0])) if ('call', 'user.remove') in t and ('call', 'DBM::batch_remove_users') in t)
    if sk.problems or not ta_all or not tb_all:
        return {'verdict': 'inconclusive', 'reason': 'skeleton not found: %s (A=%d, B=%d traces)' % (sk.problems[:2], len(ta_all), len(tb_all))}
    failed, queries, solver_s = [], 0, 0.0
    for ta in ta_all:
        ic = ta.index(('call', 'charge'))
        rel_c = next((k for k in range(ic, len(ta)) if ta[k] == ('rel', 'users')), None)
        if rel_c is None:
            continue
        for k in range(rel_c, len(ta)):
            if ta[k] not in stores:
                continue
            nxt = next((j for j in range(k + 1, len(ta)) if ta[j][0] == 'call'), None)
            if nxt is None or ta[nxt] != ('call', 'sql.unwrap'):
                continue
            # is the store inside the users section of the charge? (then the purge cannot come in between)
            for tb in tb_all:
                ir = tb.index(('call', 'user.remove'))
                ib = tb.index(('call', 'DBM::batch_remove_users'))
                text = _interleave_query(ta, tb, [('a', rel_c, 'b', ir), ('b', ib, 'a', k)], None)
                v, out, dt = smt(text)
                queries += 1
                solver_s += dt
                if v == 'inconclusive':
                    return {'verdict': 'inconclusive', 'reason': out[:200]}
                if v == 'sat':
                    failed.append({'description': 'Watcher::add_appointment unwraps the result of %s for a user whose purge (memory, then rows) can be ordered between the charge and the store: foreign-key failure unwrapped with the dbm and locator-cache locks held' % ta[k][1],
                                   'function': 'Watcher::add_appointment | Gatekeeper::filtered_block_connected',
                                   'schedule': {'A': [list(e) for e in ta], 'B': [list(e) for e in tb], 'model': out[:400]}})
                    break
            if failed:
                break
        if failed:
            break
    if not queries:
        v, out, dt = smt('(set-logic ALL)\n(assert false)\n(check-sat)\n')
        queries += 1
        solver_s += dt
    return {'verdict': 'fails' if failed else 'holds', 'failed': failed, 'queries': queries, 'solver_s': solver_s,
            'witness': {'A_traces': len(ta_all), 'B_traces': len(tb_all), 'sample_A': [list(e) for e in ta_all[0]], 'sample_B': [list(e) for e in tb_all[0]]},
            'functions': sorted(short(x) for x in sk.functions_seen)}


def q_mirror_reload(o, tier):
    """C05.M6: the representation invariant assumed by M5 (the in-memory pending / invalid set of a tower has a locator iff the
    pending_appointments / invalid_appointments table has the row) is (re-)established at start-up: DBM::load_towers fills the
    `pending_appointments` field of TowerSummary from the table WTClient::add_pending_appointment inserts into, and the
    `invalid_appointments` field from the table add_invalid_appointment inserts into. Data flow read from the MIR:
    status constant -> load_appointment_locators(status) -> table name constant; call result -> argument position of
    TowerSummary::with_appointments -> struct field. Query: exists a field whose reload table differs from its insert table."""
    funcs, idx, t_mir, err = load_mir('watchtower-plugin', 'lib')
    if funcs is None:
        return {'verdict': 'inconclusive', 'reason': 'MIR dump failed'}

    def one(rx):
        n = [x for x in funcs if re.search(rx, x)]
        return funcs[n[0]] if len(n) == 1 else None
    f_lt, f_ll, f_wa = one(r'^dbm::<impl at .*?>::load_towers$'), one(r'^dbm::<impl at .*?>::load_appointment_locators$'), one(r'^<impl at .*?lib\.rs.*?>::with_appointments$')
    if not (f_lt and f_ll and f_wa):
        return {'verdict': 'inconclusive', 'reason': 'load_towers / load_appointment_locators / with_appointments not found'}
    # (1) variant order of AppointmentStatus (source of the current tree)
    src = open(os.path.join(common.REPO, 'watchtower-plugin', 'src', 'lib.rs')).read()
    m = re.search(r'pub enum AppointmentStatus\s*\{(.*?)\}', src, re.S)
    if not m:
        return {'verdict': 'inconclusive', 'reason': 'enum AppointmentStatus not found'}
    body = re.sub(r'//[^\n]*', '', m.group(1))
    variants = [v.strip().split('=')[0].strip() for v in body.split(',') if v.strip() and not v.strip().startswith('#')]
    variants = [re.sub(r'^#\[.*?\]\s*', '', v, flags=re.S) for v in variants]
    # (2) status -> table inside load_appointment_locators
    table_of = {}
    for b in f_ll.blocks.values():
        if b.term['kind'] == 'switch' and any(re.match(r'^_\d+ = discriminant\(_3\);$', s_) for s_ in b.stmts):
            for v, tg in b.term['targets']:
                if v.isdigit() and int(v) < len(variants):
                    consts = [re.match(r'^_\d+ = const "(\w+)";$', s_) for s_ in f_ll.blocks[tg].stmts]
                    consts = [c.group(1) for c in consts if c]
                    if len(consts) == 1:
                        table_of[variants[int(v)]] = consts[0]
    # (3) load_towers: which status feeds which argument of with_appointments
    call = [b for b in f_lt.blocks.values() if b.term['kind'] == 'call' and re.search(r'TowerSummary::with_appointments$', b.term['callee'])]
    if len(call) != 1:
        return {'verdict': 'inconclusive', 'reason': 'call to with_appointments not found in load_towers'}
    args = [a.strip().split()[-1] for a in call[0].term['args']]
    status_of_local = {}
    for b in f_lt.blocks.values():
        if b.term['kind'] == 'call' and re.search(r'DBM::load_appointment_locators$', b.term['callee']) and b.term['dest']:
            st_local = b.term['args'][-1].strip().split()[-1]
            st = None
            for s_ in b.stmts:
                mm = re.match(r'^%s = AppointmentStatus::(\w+);$' % re.escape(st_local), s_)
                if mm:
                    st = mm.group(1)
            status_of_local[b.term['dest']] = st
    # (4) with_appointments: parameter -> field
    field_of_param = {}
    alias = {}
    for b in f_wa.blocks.values():
        if b.cleanup:
            continue
        for s_ in b.stmts:
            mm = re.match(r'^(_\d+) = (?:move|copy) (_\d+);$', s_)
            if mm:
                alias[mm.group(1)] = alias.get(mm.group(2), mm.group(2))
            mm = re.match(r'^_0 = TowerSummary \{(.*)\};$', s_)
            if mm:
                for fld in mm.group(1).split(','):
                    k, _, v = fld.partition(':')
                    loc = v.strip().split()[-1]
                    field_of_param[alias.get(loc, loc)] = k.strip()
    reload_table = {}
    for pos, a in enumerate(args):
        fld = field_of_param.get('_%d' % (pos + 1))
        if fld in ('pending_appointments', 'invalid_appointments'):
            reload_table[fld] = table_of.get(status_of_local.get(a))
    # (5) the table each recorder inserts into (same reading as M5)
    insert_table = {}
    for fld, store in (('pending_appointments', 'store_pending_appointment'), ('invalid_appointments', 'store_invalid_appointment')):
        summ = _store_summary(funcs, store)
        tabs = sorted({x[0] for _, sok in (summ or []) for x in sok})
        insert_table[fld] = tabs[0] if len(tabs) == 1 else None
    if len(reload_table) != 2 or None in reload_table.values() or None in insert_table.values():
        return {'verdict': 'inconclusive', 'reason': 'data flow not readable: reload=%s insert=%s variants=%s tables=%s' % (reload_table, insert_table, variants, table_of)}
    names = sorted(set(reload_table.values()) | set(insert_table.values()))
    text = '(set-logic ALL)\n(declare-const f Int)\n(define-fun reload ((f Int)) Int (ite (= f 0) %d %d))\n(define-fun insert ((f Int)) Int (ite (= f 0) %d %d))\n' % (
        names.index(reload_table['pending_appointments']), names.index(reload_table['invalid_appointments']),
        names.index(insert_table['pending_appointments']), names.index(insert_table['invalid_appointments']))
    text += '(assert (and (>= f 0) (<= f 1) (not (= (reload f) (insert f)))))\n(check-sat)\n(get-value (f))\n'
    v, out, dt = smt(text)
    if v == 'inconclusive':
        return {'verdict': 'inconclusive', 'reason': out[:200]}
    failed = []
    if v == 'sat':
        fi = int(re.search(r'\(f (\d+)\)', out).group(1))
        fld = ('pending_appointments', 'invalid_appointments')[fi]
        failed.append({'description': 'after a restart the in-memory set `%s` of a tower is loaded from table %s, but the client records into table %s: the de-duplication of the recorders then skips or repeats database writes (an appointment can end up recorded nowhere)'
                                      % (fld, reload_table[fld], insert_table[fld]),
                       'function': 'DBM::load_towers', 'pre_state': {'reload': reload_table, 'insert': insert_table}})
    return {'verdict': 'fails' if failed else 'holds', 'failed': failed, 'queries': 1, 'solver_s': dt,
            'witness': {'variants': variants, 'status_to_table': table_of, 'reload': reload_table, 'insert': insert_table},
            'functions': ['watchtower_plugin::dbm::DBM::load_towers', 'DBM::load_appointment_locators', 'TowerSummary::with_appointments']}


def q_retrier_end_state(o, tier):
    """C13.M6: the task spawned by Retrier::start, after the back-off strategy gave up with error e. Symbolic: the variant d of
    RetryError and the `permanent` flag p of RetryError::Subscription. Every feasible path to the end of the task sets the
    retrier status to something other than Running (Failed / Idle / Stopped): a retrier left Running after its task ended is
    kept for ever by the manager, never restarted, and `retrytower` answers "already being retried". Feasibility ties the
    three tests on e together: the result of RetryError::is_permanent (its own MIR is read: which variants are permanent),
    the discriminant switch of `match e`, and the test of Subscription's flag."""
    funcs, idx, t_mir, err = load_mir('watchtower-plugin', 'lib')
    if funcs is None:
        return {'verdict': 'inconclusive', 'reason': 'MIR dump failed'}
    nf = [n for n in funcs if re.match(r'^retrier::<impl at .*?>::start::\{closure#0\}$', n)]
    npm = [n for n in funcs if re.match(r'^retrier::<impl at .*?>::is_permanent$', n)]
    if len(nf) != 1 or len(npm) != 1:
        return {'verdict': 'inconclusive', 'reason': 'Retrier::start task / RetryError::is_permanent not found'}
    f, fp = funcs[nf[0]], funcs[npm[0]]

    # --- is_permanent: discriminant -> 'true' | 'false' | 'flag' (the Subscription bool) | 'notflag'
    def const_of(bid, seen=()):
        b = fp.blocks[bid]
        for s_ in b.stmts:
            m = re.match(r'^_0 = const (true|false);$', s_)
            if m:
                return m.group(1)
        if b.term['kind'] == 'goto' and bid not in seen:
            return const_of(b.term['next'], seen + (bid,))
        return None
    perm = {}
    b0 = fp.blocks[min(fp.blocks)]
    sw = [b for b in fp.blocks.values() if b.term['kind'] == 'switch' and any('discriminant(' in s_ for s_ in b.stmts)]
    if len(sw) != 1:
        return {'verdict': 'inconclusive', 'reason': 'is_permanent: discriminant switch not found'}
    for v, tg in sw[0].term['targets']:
        if not v.isdigit():
            continue
        tb = fp.blocks[tg]
        if tb.term['kind'] == 'switch' and re.search(r'as \w+\)\.1: bool', tb.term['operand']):
            tt = dict(tb.term['targets'])
            hi = const_of(tt.get('otherwise', tt.get('1')))
            lo = const_of(tt.get('0'))
            if hi == 'true' and lo == 'false':
                perm[int(v)] = 'flag'
            elif hi == 'false' and lo == 'true':
                perm[int(v)] = 'notflag'
            else:
                return {'verdict': 'inconclusive', 'reason': 'is_permanent: flag arm not readable'}
        else:
            c = const_of(tg)
            if c is None:
                return {'verdict': 'inconclusive', 'reason': 'is_permanent: arm %s not readable' % v}
            perm[int(v)] = c
    # --- the task: from the is_permanent call to the end
    call = [b for b in f.blocks.values() if b.term['kind'] == 'call' and re.search(r'RetryError::is_permanent$', b.term['callee'])]
    if len(call) != 1:
        return {'verdict': 'inconclusive', 'reason': 'call to is_permanent not found in the task'}
    perm_dest = call[0].term['dest']
    # the error local: is_permanent(move _a) with `_a = &_e`
    a = call[0].term['args'][0].strip().split()[-1]
    e_local = None
    for s_ in call[0].stmts:
        m = re.match(r'^%s = &(_\d+);$' % re.escape(a), s_)
        if m:
            e_local = m.group(1)
    if e_local is None:
        return {'verdict': 'inconclusive', 'reason': 'error local not found'}
    paths, stack, steps = [], [(call[0].term['next'], (), {})], 0
    while stack:
        bb, tr, vis = stack.pop()
        steps += 1
        if steps > 400000:
            return {'verdict': 'inconclusive', 'reason': 'path explosion'}
        if vis.get(bb, 0) >= 1:
            continue
        vis = dict(vis)
        vis[bb] = 1
        b = f.blocks[bb]
        disc_of = {}
        for s_ in b.stmts:
            m = re.match(r'^(_\d+) = discriminant\((_\d+)\);$', s_)
            if m:
                disc_of[m.group(1)] = m.group(2)
            m = re.match(r'^_\d+ = (RetrierStatus::\w+)', s_)
            if m:
                tr = tr + (('mk', m.group(1)),)
        t = b.term
        if t['kind'] == 'call':
            if re.search(r'Retrier::set_status$', t['callee']):
                last = [e for e in tr if e[0] == 'mk']
                tr = tr + (('set', last[-1][1] if last else '?'),)
            if t['next']:
                stack.append((t['next'], tr, vis))
        elif t['kind'] == 'switch':
            op = t['operand'].split()[-1] if not t['operand'].endswith('bool)') else t['operand']
            listed = [v for v, _ in t['targets'] if v.isdigit()]
            for v, tg in t['targets']:
                tr2 = tr
                if op == perm_dest:
                    tr2 = tr + (('perm', v != '0'),)
                elif op in disc_of and disc_of[op] == e_local:
                    tr2 = tr + (('disc', v, tuple(listed)),)
                elif re.search(r'\(%s as \w+\)\.1: bool' % re.escape(e_local), t['operand']):
                    tr2 = tr + (('flag', v != '0'),)
                stack.append((tg, tr2, vis))
        elif t['kind'] in ('goto', 'drop', 'assert', 'yield'):
            stack.append((t['next'], tr, vis))
        elif t['kind'] == 'return':
            paths.append(tr)
    paths = sorted(set(paths))
    if not paths or not any(e[0] == 'disc' for p_ in paths for e in p_) or not any(e[0] == 'perm' for p_ in paths for e in p_):
        return {'verdict': 'inconclusive', 'reason': 'vacuous: %d paths, tests on the error not found' % len(paths)}
    nvar = max(perm) + 1

    def perm_smt():
        s_ = 'false'
        for d_, c in perm.items():
            val = {'true': 'true', 'false': 'false', 'flag': 'p', 'notflag': '(not p)'}[c]
            s_ = '(ite (= d %d) %s %s)' % (d_, val, s_)
        return s_
    text = '(set-logic ALL)\n(declare-const d Int)\n(declare-const p Bool)\n(declare-const k Int)\n(assert (and (>= d 0) (< d %d)))\n' % nvar
    text += '(define-fun perm () Bool %s)\n' % perm_smt()
    disj = []
    for k, p_ in enumerate(paths):
        ends = [e[1] for e in p_ if e[0] == 'set' and e[1] != 'RetrierStatus::Running']
        if ends:
            continue
        cs = ['(= k %d)' % k]
        for e in p_:
            if e[0] == 'perm':
                cs.append('perm' if e[1] else '(not perm)')
            elif e[0] == 'disc':
                if e[1].isdigit():
                    cs.append('(= d %s)' % e[1])
                else:
                    cs += ['(not (= d %s))' % x for x in e[2]]
            elif e[0] == 'flag':
                cs.append('p' if e[1] else '(not p)')
        disj.append('(and %s)' % ' '.join(cs))
    text += '(assert (or false %s))\n(check-sat)\n(get-model)\n' % ' '.join(disj)
    v, out, dt = smt(text)
    if v == 'inconclusive':
        return {'verdict': 'inconclusive', 'reason': out[:200]}
    failed = []
    if v == 'sat':
        k = int(re.search(r'define-fun k \(\) Int\s+(\d+)', out).group(1))
        d_ = int(re.search(r'define-fun d \(\) Int\s+(\d+)', out).group(1))
        pv = re.search(r'define-fun p \(\) Bool\s+(true|false)', out)
        failed.append({'description': 'after the retry strategy gave up, the task of Retrier::start can end without taking the retrier out of the Running state: it is never restarted, never idles, and manual retries are refused',
                       'function': 'Retrier::start', 'pre_state': {'RetryError variant index': d_, 'Subscription.permanent': pv.group(1) if pv else None},
                       'schedule': [list(map(str, e)) for e in paths[k]]})
    return {'verdict': 'fails' if failed else 'holds', 'failed': failed, 'queries': 1, 'solver_s': dt,
            'witness': {'paths': len(paths), 'is_permanent': {str(k_): v_ for k_, v_ in perm.items()},
                        'end_states': sorted({e[1] for p_ in paths for e in p_ if e[0] == 'set'})},
            'functions': ['watchtower_plugin::retrier::Retrier::start::{closure#0}', 'RetryError::is_permanent']}


def q_retrier_start_status(o, tier):
    """C13.M7: Retrier::start, before the task is spawned: on every path the tower is flagged TemporaryUnreachable unless its
    status *is a subscription error* (which must survive so that the run re-registers first). While a retrier runs the tower
    must not be shown Unreachable: on_commitment_revocation hands new appointments to the retry manager only for towers that
    are not Unreachable, so a round started from idle would otherwise never learn about them, succeed, and leave them
    pending for ever behind a "reachable" tower."""
    funcs, idx, t_mir, err = load_mir('watchtower-plugin', 'lib')
    if funcs is None:
        return {'verdict': 'inconclusive', 'reason': 'MIR dump failed'}
    n = [x for x in funcs if re.match(r'^retrier::<impl at .*?>::start$', x)]
    if len(n) != 1:
        return {'verdict': 'inconclusive', 'reason': 'Retrier::start not found'}
    f = funcs[n[0]]
    rows = enum_paths(f, min(f.blocks), r'tokio::spawn|task::spawn')
    if rows is None:
        return {'verdict': 'inconclusive', 'reason': 'path explosion'}
    rows = [r for r in rows if r[-1][0] == 'stop']
    if not rows:
        return {'verdict': 'inconclusive', 'reason': 'no path reaches the spawn'}

    def flagged(r):
        ev = list(r)
        for k, e in enumerate(ev):
            if e == ('call', 'WTClient::set_tower_status'):
                mk = [x[1] for x in ev[:k] if x[0] == 'mk' and x[1].startswith('TowerStatus::')]
                if mk and mk[-1] == 'TowerStatus::TemporaryUnreachable':
                    return True
        return False

    def sub_error(r):
        return any(e[0] == 'branch' and e[1] == 'TowerStatus::is_subscription_error' and e[2] != '0' for e in r)

    def running(r):
        ev = list(r)
        return any(e == ('call', 'Retrier::set_status') and [x[1] for x in ev[:k] if x[0] == 'mk' and x[1].startswith('RetrierStatus::')][-1:] == ['RetrierStatus::Running']
                   for k, e in enumerate(ev))
    if not any(flagged(r) for r in rows):
        return {'verdict': 'inconclusive', 'reason': 'vacuous: no path flags the tower'}
    failed = []
    v, i, dt, out = _exists(rows, lambda r: not flagged(r) and not sub_error(r), 'status')
    if v == 'inconclusive':
        return {'verdict': 'inconclusive', 'reason': out[:200]}
    if v == 'sat':
        failed.append({'description': 'a retry round can start without the tower being flagged TemporaryUnreachable although its status is not a subscription error: appointments that arrive during the round never reach the retrier',
                       'function': 'Retrier::start', 'schedule': [list(e) for e in rows[i] if e[0] in ('call', 'branch', 'mk')][:14]})
    v2, i2, dt2, out2 = _exists(rows, lambda r: not running(r), 'running')
    if v2 == 'sat':
        failed.append({'description': 'the task can be spawned without the retrier having been marked Running first (a second loop for the same tower could be started)',
                       'function': 'Retrier::start', 'schedule': [list(e) for e in rows[i2] if e[0] in ('call', 'branch', 'mk')][:14]})
    return {'verdict': 'fails' if failed else 'holds', 'failed': failed, 'queries': 2, 'solver_s': dt + dt2,
            'witness': {'paths': len(rows), 'flagged': sum(1 for r in rows if flagged(r)), 'subscription_error': sum(1 for r in rows if sub_error(r))},
            'functions': ['watchtower_plugin::retrier::Retrier::start']}


def q_registration_extends(o, tier):
    """C14.M5: symbolic execution of the MIR of WTClient::add_update_tower up to DBM::store_tower_record. Symbolic 32-bit
    values: the receipt's expiry and slots (results of RegistrationReceipt::subscription_expiry / available_slots), the
    u32 fields read from the in-memory summary found by HashMap::get and from the record returned by load_tower_record
    (resolved to field names through the struct aggregates in the MIR); symbolic booleans: "the tower is known" (the Option
    discriminant of the look-up) and the result of every other boolean call. Path conditions are the comparison statements
    (Le/Lt/Ge/Gt/Eq/Ne as bit-vector predicates) and the switches taken. Query (z3 and cvc5): exists a path to the store and
    values with the tower known such that NOT (receipt expiry > known expiry AND receipt slots > recorded slots)."""
    funcs, idx, t_mir, err = load_mir('watchtower-plugin', 'lib')
    if funcs is None:
        return {'verdict': 'inconclusive', 'reason': 'MIR dump failed'}
    n = [x for x in funcs if re.match(r'^wt_client::<impl at .*?>::add_update_tower$', x)]
    if len(n) != 1:
        return {'verdict': 'inconclusive', 'reason': 'WTClient::add_update_tower not found'}
    f = funcs[n[0]]

    # field index -> name for the two structs, from any aggregate `_0 = T { a: .., b: .. }` in the crate
    def field_names(struct):
        for fn_ in funcs.values():
            for b in fn_.blocks.values():
                for s_ in b.stmts:
                    m = re.match(r'^_\d+ = %s \{(.*)\};$' % struct, s_)
                    if m:
                        return [x.split(':')[0].strip() for x in m.group(1).split(',')]
        return None
    fs_sum, fs_info = field_names('TowerSummary'), field_names('TowerInfo')
    if not fs_sum or not fs_info:
        return {'verdict': 'inconclusive', 'reason': 'struct layouts of TowerSummary / TowerInfo not found in the MIR'}
    OPS = {'Le': 'bvule', 'Lt': 'bvult', 'Ge': 'bvuge', 'Gt': 'bvugt', 'Eq': '=', 'Ne': 'distinct'}
    paths, stack, steps = [], [(min(f.blocks), {}, (), {})], 0
    decls = {}

    def val(env, operand):
        loc = operand.strip().split()[-1]
        return env.get(loc)
    while stack:
        bb, env, conds, vis = stack.pop()
        steps += 1
        if steps > 200000:
            return {'verdict': 'inconclusive', 'reason': 'path explosion'}
        if vis.get(bb, 0) >= 1:
            continue
        vis = dict(vis)
        vis[bb] = 1
        env = dict(env)
        b = f.blocks[bb]
        if b.cleanup:
            continue
        for s_ in b.stmts:
            m = re.match(r'^(_\d+) = (?:copy|move) \(\(_(\d+) as Some\)\.0: (.*)\);$', s_)
            if m:
                env[m.group(1)] = ('ref', env.get('_' + m.group(2), ('opt', '?'))[1])
                continue
            m = re.match(r'^(_\d+) = (?:copy|move) \(\(\*(_\d+)\)\.(\d+): u32\);$', s_) or re.match(r'^(_\d+) = (?:copy|move) \((_\d+)\.(\d+): u32\);$', s_)
            if m:
                src = env.get(m.group(2))
                if src and src[0] in ('ref', 'val'):
                    names = fs_sum if src[1] == 'summary' else fs_info if src[1] == 'info' else None
                    k = int(m.group(3))
                    nm = '%s_%s' % (src[1], names[k] if names and k < len(names) else 'f%d' % k)
                    decls[nm] = 'bv'
                    env[m.group(1)] = ('bv', nm)
                continue
            m = re.match(r'^(_\d+) = (Le|Lt|Ge|Gt|Eq|Ne)\((.+?), (.+?)\);$', s_)
            if m:
                a, c = val(env, m.group(3)), val(env, m.group(4))
                if a and c and a[0] == 'bv' and c[0] == 'bv':
                    env[m.group(1)] = ('bool', '(%s %s %s)' % (OPS[m.group(2)], a[1], c[1]))
                continue
            m = re.match(r'^(_\d+) = (?:copy|move) (_\d+);$', s_)
            if m and m.group(2) in env:
                env[m.group(1)] = env[m.group(2)]
                continue
            m = re.match(r'^(_\d+) = Not\((?:copy|move) (_\d+)\);$', s_)
            if m and env.get(m.group(2), ('', ''))[0] == 'bool':
                env[m.group(1)] = ('bool', '(not %s)' % env[m.group(2)][1])
                continue
            m = re.match(r'^(_\d+) = discriminant\((_\d+)\);$', s_)
            if m and env.get(m.group(2), ('', ''))[0] == 'opt':
                env[m.group(1)] = ('disc', env[m.group(2)][1])
        t = b.term
        if t['kind'] == 'call':
            cs = call_short(t['callee'])
            if re.search(r'DBM::store_tower_record$', t['callee']):
                paths.append(conds)
                continue
            d = t['dest']
            if d:
                if re.search(r'HashMap::<.*TowerSummary>::get(?:::<.*>)?$', t['callee']):
                    env[d] = ('opt', 'summary')
                elif cs == 'RegistrationReceipt::subscription_expiry':
                    decls['r_expiry'] = 'bv'
                    env[d] = ('bv', 'r_expiry')
                elif cs == 'RegistrationReceipt::available_slots':
                    decls['r_slots'] = 'bv'
                    env[d] = ('bv', 'r_slots')
                elif cs == 'DBM::load_tower_record':
                    env[d] = ('opt', 'info')
                elif re.search(r'Option::<.*TowerInfo>::(unwrap|expect)$', t['callee']):
                    a0 = val(env, t['args'][0]) if t['args'] else None
                    env[d] = ('val', 'info') if a0 and a0[1] == 'info' else ('val', '?')
                else:
                    nm = 'c_' + re.sub(r'\W+', '_', cs)
                    decls[nm] = 'bool'
                    env[d] = ('bool', nm)
            if t['next']:
                stack.append((t['next'], env, conds, vis))
        elif t['kind'] == 'switch':
            op = t['operand'].strip().split()[-1]
            v_ = env.get(op)
            for tv, tg in t['targets']:
                c2 = conds
                if v_ and v_[0] == 'bool':
                    c2 = conds + ((v_[1] if tv != '0' else '(not %s)' % v_[1]),)
                elif v_ and v_[0] == 'disc' and v_[1] == 'summary':
                    if tv == '1':
                        c2 = conds + ('known',)
                    elif tv == '0':
                        c2 = conds + ('(not known)',)
                    else:
                        continue        # the unreachable arm of the Option match
                stack.append((tg, env, c2, vis))
        elif t['kind'] in ('goto', 'drop', 'assert'):
            stack.append((t['next'], env, conds, vis))
    if not paths:
        return {'verdict': 'inconclusive', 'reason': 'no path reaches DBM::store_tower_record'}
    need = ('r_expiry', 'r_slots', 'summary_subscription_expiry', 'info_available_slots')
    for x in need:
        decls.setdefault(x, 'bv')
    text = '(set-logic ALL)\n(declare-const known Bool)\n(declare-const k Int)\n'
    for nm, ty in sorted(decls.items()):
        text += '(declare-const %s %s)\n' % (nm, '(_ BitVec 32)' if ty == 'bv' else 'Bool')
    disj = ['(and (= k %d) %s)' % (i, ' '.join(c) if c else 'true') for i, c in enumerate(paths)]
    text += '(assert (or false %s))\n' % ' '.join(disj)
    text += '(assert known)\n(assert (not (and (bvugt r_expiry summary_subscription_expiry) (bvugt r_slots info_available_slots))))\n(check-sat)\n(get-model)\n'
    v, out, dt = smt(text)
    if v == 'inconclusive':
        return {'verdict': 'inconclusive', 'reason': out[:200]}
    failed = []
    if v == 'sat':
        k = int(re.search(r'define-fun k \(\) Int\s+(\d+)', out).group(1))
        model = {m_.group(1): m_.group(2) for m_ in re.finditer(r'define-fun (\w+) \(\) (?:\(_ BitVec 32\)|Bool)\s+(#x[0-9a-f]+|true|false)', out)}
        failed.append({'description': 'WTClient::add_update_tower can store a registration for a known tower that does not strictly extend the known subscription (expiry and slots)',
                       'function': 'WTClient::add_update_tower', 'pre_state': model, 'schedule': list(paths[k])})
    # vacuity: the same query without the negated property must be satisfiable (a path to the store exists for a known tower)
    v3, out3, dt3 = smt(text.replace('(assert (not (and (bvugt r_expiry summary_subscription_expiry) (bvugt r_slots info_available_slots))))\n', ''))
    if v3 != 'sat':
        return {'verdict': 'inconclusive', 'reason': 'vacuous: a known tower can never be updated (%s)' % v3}
    return {'verdict': 'fails' if failed else 'holds', 'failed': failed, 'queries': 2, 'solver_s': dt + dt3,
            'witness': {'paths_to_store': len(paths), 'conditions': [list(c) for c in paths][:6], 'symbols': sorted(decls)},
            'functions': ['watchtower_plugin::wt_client::WTClient::add_update_tower']}


def q_monitor_polls_always(o, tier):
    """C12.M4: ChainMonitor::monitor_chain. Every iteration of the monitoring loop - the first one and every one after a sleep
    that was not ended by the shutdown signal - calls poll_best_tip before it sleeps again, on every path (in particular
    whatever the reachable flag says): a successful poll is the only thing that raises the flag and wakes the Carrier, so a
    loop that can skip the poll can leave the tower "unavailable" for ever after an outage that has ended."""
    funcs, idx, t_mir, err = load_mir('teos')
    if funcs is None:
        return {'verdict': 'inconclusive', 'reason': 'MIR dump failed'}
    n = [x for x in funcs if re.match(r'^chain_monitor::<impl at .*?>::monitor_chain::\{closure#0\}$', x)]
    if len(n) != 1:
        return {'verdict': 'inconclusive', 'reason': 'monitor_chain not found'}
    f = funcs[n[0]]
    sleep = r'^(?:tokio::time::)?timeout::<|^(?:tokio::time::)?sleep'
    starts = []
    b0 = f.blocks[min(f.blocks, key=lambda x: int(x[2:]))]
    if b0.term['kind'] == 'switch':
        starts += [tg for v, tg in b0.term['targets'] if v == '0']
    for b in f.blocks.values():
        if b.term['kind'] == 'call' and re.search(r'Result::<\(\), .*Elapsed>::is_ok$', b.term['callee']) and b.term['next']:
            nb = f.blocks[b.term['next']]
            if nb.term['kind'] == 'switch':
                starts += [tg for v, tg in nb.term['targets'] if v == '0']      # the sleep elapsed: next iteration
    if len(starts) < 2:
        return {'verdict': 'inconclusive', 'reason': 'loop entry points not found (%d)' % len(starts)}
    rows = []
    for st in starts:
        r = enum_paths(f, st, sleep)
        if r is None:
            return {'verdict': 'inconclusive', 'reason': 'path explosion'}
        rows += [x for x in r if x[-1][0] == 'stop']
    polls = lambda r: any(e[0] == 'call' and e[1].endswith('::poll_best_tip') for e in r)
    if not rows or not any(polls(r) for r in rows):
        return {'verdict': 'inconclusive', 'reason': 'vacuous: %d paths to the sleep' % len(rows)}
    v, i, dt, out = _exists(rows, lambda r: not polls(r), 'skip')
    if v == 'inconclusive':
        return {'verdict': 'inconclusive', 'reason': out[:200]}
    failed = []
    if v == 'sat':
        failed.append({'description': 'the monitoring loop can go to sleep again without having polled the node in that iteration: after an outage nothing raises the reachable flag or wakes the Carrier any more',
                       'function': 'ChainMonitor::monitor_chain', 'schedule': [list(e) for e in rows[i] if e[0] in ('call', 'branch')][:12]})
    return {'verdict': 'fails' if failed else 'holds', 'failed': failed, 'queries': 1, 'solver_s': dt,
            'witness': {'iterations_entry_points': len(starts), 'paths_to_sleep': len(rows)},
            'functions': ['teos::chain_monitor::ChainMonitor::monitor_chain']}


def q_retain_rule(o, tier):
    """C13.M8: the `retain` closure of RetryManager::manage_retry. A retrier is kept by the manager only if it is ready to be
    (re)started (should_start: stopped with pending data), running, or idle; a Failed or finished retrier is dropped, so that
    a later `retrytower` or revocation creates a fresh one. Query: exists a path of the closure that can return true without
    the true edge of one of the three predicates (kept for another reason: a dead entry then swallows every later message
    for its tower), or a path that does not call remove_if_failed first."""
    funcs, idx, t_mir, err = load_mir('watchtower-plugin', 'lib')
    if funcs is None:
        return {'verdict': 'inconclusive', 'reason': 'MIR dump failed'}
    cand = [n for n in funcs if re.match(r'^retrier::<impl at .*?>::manage_retry::\{closure#0\}::\{closure#\d+\}$', n)
            and funcs[n].header.rstrip().endswith('-> bool {')]
    if len(cand) != 1:
        return {'verdict': 'inconclusive', 'reason': 'retain closure not found (%d candidates)' % len(cand)}
    f = funcs[cand[0]]
    ALLOWED = ('Retrier::should_start', 'Retrier::is_running', 'Retrier::is_idle')
    paths, stack = [], [(min(f.blocks), (), None, {})]
    while stack:
        bb, tr, lastcall, vis = stack.pop()
        if vis.get(bb, 0) >= 1:
            continue
        vis = dict(vis)
        vis[bb] = 1
        b = f.blocks[bb]
        for s_ in b.stmts:
            m = re.match(r'^_0 = const (true|false);$', s_)
            if m:
                tr = tr + (('ret', m.group(1)),)
        t = b.term
        if t['kind'] == 'call':
            cs = call_short(t['callee'])
            tr = tr + (('call', cs),)
            if t['dest'] == '_0':
                tr = tr + (('ret', 'call:' + cs),)
            if t['next']:
                stack.append((t['next'], tr, (cs, t['dest']), vis))
        elif t['kind'] == 'switch':
            op = t['operand'].strip().split()[-1]
            for v_, tg in t['targets']:
                tr2 = tr + ((('branch', lastcall[0], v_ != '0'),) if lastcall and lastcall[1] == op else ())
                stack.append((tg, tr2, None, vis))
        elif t['kind'] in ('goto', 'drop', 'assert'):
            stack.append((t['next'], tr, lastcall, vis))
        elif t['kind'] == 'return':
            paths.append(tr)
    paths = sorted(set(paths))
    if not paths or not any(e[0] == 'ret' for p_ in paths for e in p_):
        return {'verdict': 'inconclusive', 'reason': 'vacuous: %d paths, no return value found' % len(paths)}

    def may_keep(p_):
        r = [e[1] for e in p_ if e[0] == 'ret']
        return bool(r) and r[-1] != 'false'

    def justified(p_):
        r = [e[1] for e in p_ if e[0] == 'ret'][-1]
        if r.startswith('call:'):
            return r[5:] in ALLOWED
        return any(e[0] == 'branch' and e[1] in ALLOWED and e[2] for e in p_)
    v, i, dt, out = _exists(paths, lambda p_: may_keep(p_) and not justified(p_), 'retain')
    if v == 'inconclusive':
        return {'verdict': 'inconclusive', 'reason': out[:200]}
    failed = []
    if v == 'sat':
        failed.append({'description': 'the retry manager can keep a retrier that is neither ready to start, running nor idle (e.g. a failed one that still holds locators): later retries and revocations for that tower go to a dead entry',
                       'function': 'RetryManager::manage_retry (retain)', 'schedule': [list(map(str, e)) for e in paths[i]]})
    v2, i2, dt2, out2 = _exists(paths, lambda p_: not any(e == ('call', 'Retrier::remove_if_failed') for e in p_), 'cleanup')
    if v2 == 'sat':
        failed.append({'description': 'a retrier can be examined by the manager without remove_if_failed having been called (the client keeps showing a retrier that has failed)',
                       'function': 'RetryManager::manage_retry (retain)', 'schedule': [list(map(str, e)) for e in paths[i2]]})
    return {'verdict': 'fails' if failed else 'holds', 'failed': failed, 'queries': 2, 'solver_s': dt + dt2,
            'witness': {'paths': len(paths), 'keeping_paths': sum(1 for p_ in paths if may_keep(p_))},
            'functions': ['watchtower_plugin::retrier::RetryManager::manage_retry::{retain closure}']}


def q_retry_data_kept(o, tier):
    """C13.M5: RetryManager::manage_retry, one received message (tower_id, data). Every path from the reception back to the
    next reception either (a) finds the tower abandoned (contains_key false), (b) hands the data to
    add_pending_appointments, or (c) goes through the true edge of Retrier::is_idle - an idle retrier keeps no data in memory
    and reloads everything pending from the database when it wakes up (load_appointment_locators), so dropping the message
    is harmless there and only there. Query: exists a path that does none of the three (data for a stopped or running
    retrier silently dropped: the appointment stays pending for ever while the tower is shown reachable)."""
    funcs, idx, t_mir, err = load_mir('watchtower-plugin', 'lib')
    if funcs is None:
        return {'verdict': 'inconclusive', 'reason': 'MIR dump failed'}
    name = [n for n in funcs if re.match(r'^retrier::<impl at .*?>::manage_retry::\{closure#0\}$', n)]
    if len(name) != 1:
        return {'verdict': 'inconclusive', 'reason': 'manage_retry not found'}
    f = funcs[name[0]]
    recv = [b for b in f.blocks.values() if b.term['kind'] == 'call' and re.search(r'UnboundedReceiver::<.*>::try_recv$', b.term['callee'])]
    if len(recv) != 1:
        return {'verdict': 'inconclusive', 'reason': 'anchor try_recv not found (%d)' % len(recv)}
    rows = enum_paths(f, recv[0].term['next'], r'UnboundedReceiver::<.*>::try_recv$')
    if rows is None:
        return {'verdict': 'inconclusive', 'reason': 'path explosion'}
    # the Ok((tower_id, data)) arm is the one that asks whether the tower is still known
    rows = [r for r in rows if any(e[0] == 'call' and e[1].endswith('::contains_key') for e in r) and r[-1][0] == 'stop']

    def abandoned(r):
        return any(e[0] == 'branch' and e[1].endswith('::contains_key') and e[2] == '0' for e in r)

    def handed_over(r):
        return any(e == ('call', 'RetryManager::add_pending_appointments') for e in r)

    def idle(r):
        return any(e[0] == 'branch' and e[1] == 'Retrier::is_idle' and e[2] != '0' for e in r)
    if not rows or not any(handed_over(r) for r in rows):
        return {'verdict': 'inconclusive', 'reason': 'vacuous: %d paths through the Ok arm' % len(rows)}
    failed = []
    v, i, dt, out = _exists(rows, lambda r: not abandoned(r) and not handed_over(r) and not idle(r), 'drop')
    if v == 'inconclusive':
        return {'verdict': 'inconclusive', 'reason': out[:200]}
    if v == 'sat':
        failed.append({'description': 'manage_retry can drop the data of a message for a retrier that is not idle (stopped or running): the appointment is never re-sent although the tower ends up shown as reachable',
                       'function': 'RetryManager::manage_retry', 'schedule': [list(e) for e in rows[i] if e[0] in ('call', 'branch')][:14]})
    # an idle retrier that is woken up must reload from the database before it is marked Stopped-with-data
    v2, i2, dt2, out2 = _exists(rows, lambda r: idle(r) and not any(e[0] == 'call' and e[1].endswith('::continue') for e in r)
                                and any(e[0] == 'mk' and e[1] == 'RetrierStatus::Stopped' for e in r)
                                and not any(e == ('call', 'DBM::load_appointment_locators') for e in r), 'reload')
    if v2 == 'sat':
        failed.append({'description': 'an idle retrier is woken up (set to Stopped) without reloading the pending appointments from the database',
                       'function': 'RetryManager::manage_retry', 'schedule': [list(e) for e in rows[i2] if e[0] in ('call', 'branch', 'mk')][:14]})
    return {'verdict': 'fails' if failed else 'holds', 'failed': failed, 'queries': 2, 'solver_s': dt + dt2,
            'witness': {'paths': len(rows), 'handed_over': sum(1 for r in rows if handed_over(r)), 'idle': sum(1 for r in rows if idle(r)),
                        'abandoned': sum(1 for r in rows if abandoned(r))},
            'functions': ['watchtower_plugin::retrier::RetryManager::manage_retry']}


def q_retry_progress(o, tier):
    """C13: (no_spin) inside Retrier::run every way a re-sent appointment can be answered either makes progress (the
    locator leaves the in-memory pending set) or ends the run (the back-off strategy of `retry_notify` then decides when to
    try again): the `while has_pending` loop cannot re-send immediately without progress.
    (single_loop) RetryManager::manage_retry starts a retrier only on the true edge of Retrier::should_start (stopped and
    has pending data), and Retrier::start marks it Running *before* spawning the task, so the next tick cannot start a
    second loop for the same tower."""
    funcs, idx, t_mir, err = load_mir('watchtower-plugin', 'lib')
    if funcs is None:
        return {'verdict': 'inconclusive', 'reason': 'MIR dump failed'}
    part = o.get('part')
    failed = []
    if part == 'no_spin':
        name = [n for n in funcs if re.match(r'^retrier::<impl at .*?>::run::\{closure#0\}$', n)]
        if len(name) != 1:
            return {'verdict': 'inconclusive', 'reason': 'Retrier::run not found'}
        f = funcs[name[0]]
        poll = [b for b in f.blocks.values() if b.term['kind'] == 'call' and re.search(r'http::add_appointment\(\)\} as (?:std::future::)?Future>::poll', b.term['callee'])]
        if len(poll) != 1:
            return {'verdict': 'inconclusive', 'reason': 'anchor not found'}
        rows = enum_paths(f, poll[0].term['next'], r'IntoIter<Locator> as Iterator>::next')
        if rows is None:
            return {'verdict': 'inconclusive', 'reason': 'path explosion'}
        rows = [r for r in rows if ('stmt', 'pending') not in r and r[-1][0] == 'stop']     # the loop goes on
        progress = lambda r: any(e[0] == 'call' and re.search(r'HashSet<Locator>::remove|HashSet::remove', e[1]) for e in r)
        if not rows or not any(progress(r) for r in rows):
            return {'verdict': 'inconclusive', 'reason': 'vacuous: %d continuing paths' % len(rows)}
        v, i, dt, out = _exists(rows, lambda r: not progress(r), 'spin')
        if v == 'inconclusive':
            return {'verdict': 'inconclusive', 'reason': out[:200]}
        if v == 'sat':
            failed.append({'description': 'the retry loop can go on to re-send without back-off although the answered appointment made no progress',
                           'function': 'Retrier::run', 'schedule': [list(e) for e in rows[i] if e[0] in ('call', 'branch')][-8:]})
        wit = {'continuing_paths': len(rows)}
    else:
        name = [n for n in funcs if re.match(r'^retrier::<impl at .*?>::manage_retry::\{closure#0\}$', n)]
        st = [n for n in funcs if re.match(r'^retrier::<impl at .*?>::start$', n)]
        if len(name) != 1 or len(st) != 1:
            return {'verdict': 'inconclusive', 'reason': 'manage_retry / start not found (%d, %d)' % (len(name), len(st))}
        f = funcs[name[0]]
        rows = enum_paths(f, 'bb0', r'RetryManager::start_retrying$')
        if rows is None:
            return {'verdict': 'inconclusive', 'reason': 'path explosion'}
        rows = [r for r in rows if r[-1][0] == 'stop']
        if not rows:
            return {'verdict': 'inconclusive', 'reason': 'vacuous: start_retrying not reachable'}

        def guarded(r):
            # the last should_start branch before the stop must be the true edge
            br = [e for e in r if e[0] == 'branch' and e[1] == 'Retrier::should_start']
            return bool(br) and br[-1][2] != '0'
        v, i, dt, out = _exists(rows, lambda r: not guarded(r), 'start')
        if v == 'inconclusive':
            return {'verdict': 'inconclusive', 'reason': out[:200]}
        if v == 'sat':
            failed.append({'description': 'a retrier can be started without should_start() (stopped and pending data) having returned true',
                           'function': 'RetryManager::manage_retry', 'schedule': [list(e) for e in rows[i] if e[0] in ('call', 'branch')][-8:]})
        g = funcs[st[0]]
        rows2 = enum_paths(g, 'bb0', r'tokio::spawn|tokio::task::spawn')
        if rows2 is None or not [r for r in rows2 if r[-1][0] == 'stop']:
            return {'verdict': 'inconclusive', 'reason': 'vacuous: spawn not found in Retrier::start'}
        rows2 = [r for r in rows2 if r[-1][0] == 'stop']
        v2, i2, dt2, out2 = _exists(rows2, lambda r: not any(e == ('call', 'Retrier::set_status') for e in r), 'running')
        if v2 == 'inconclusive':
            return {'verdict': 'inconclusive', 'reason': out2[:200]}
        if v2 == 'sat':
            failed.append({'description': 'Retrier::start can spawn the retry task before the retrier is marked Running',
                           'function': 'Retrier::start', 'schedule': [list(e) for e in rows2[i2] if e[0] == 'call'][-8:]})
        dt += dt2
        wit = {'paths_to_start_retrying': len(rows), 'paths_to_spawn': len(rows2)}
    return {'verdict': 'fails' if failed else 'holds', 'failed': failed, 'queries': 2, 'solver_s': dt, 'witness': wit,
            'functions': ['watchtower_plugin::retrier']}


def q_per_appointment_decrypt(o, tier):
    """C06/C01 (structural): in Watcher::handle_breaches every iteration of the per-appointment loop (between two
    `IntoIter<UUID>::next` calls) loads *that* appointment and decrypts *its* blob exactly once before the breach is
    handed to the responder or the appointment is reported invalid: users sharing a locator are judged by their own data.
    (Data-flow facts checked on the MIR: load_appointment's uuid argument is the loop variable; decrypt's first argument
    is `encrypted_blob()` of the appointment loaded in this iteration; handle_breach gets the same uuid.)"""
    funcs, idx, t_mir, err = load_mir('teos')
    if funcs is None:
        return {'verdict': 'inconclusive', 'reason': 'MIR dump failed'}
    name = [n for n in funcs if re.match(r'^watcher::<impl at .*?>::handle_breaches$', n)]
    if len(name) != 1:
        return {'verdict': 'inconclusive', 'reason': 'handle_breaches not found'}
    f = funcs[name[0]]
    nxt = [b for b in f.blocks.values() if b.term['kind'] == 'call' and re.search(r'IntoIter<UUID> as Iterator>::next$', b.term['callee'])]
    if len(nxt) != 1:
        return {'verdict': 'inconclusive', 'reason': 'inner loop not found (%d)' % len(nxt)}
    rows = enum_paths(f, nxt[0].term['next'], r'IntoIter<UUID> as Iterator>::next$|IntoIter<Locator, .*Transaction> as Iterator>::next$')
    if rows is None:
        return {'verdict': 'inconclusive', 'reason': 'path explosion'}
    body = [r for r in rows if any(e[0] == 'call' and e[1] in ('Responder::handle_breach', 'Vec::push') for e in r)]
    if not body:
        return {'verdict': 'inconclusive', 'reason': 'vacuous: no loop body path'}

    def calls(r):
        return [e[1] for e in r if e[0] == 'call']

    def bad(r):
        c = calls(r)
        if c.count('decrypt') != 1 or c.count('DBM::load_appointment') != 1 or c.count('ExtendedAppointment::encrypted_blob') < 1:
            return True
        d = c.index('decrypt')
        if not (c.index('DBM::load_appointment') < c.index('ExtendedAppointment::encrypted_blob') < d):
            return True
        later = [i for i, x in enumerate(c) if x in ('Responder::handle_breach', 'Vec::push')]
        return not later or min(later) < d
    v, i, dt, out = _exists(body, bad, 'dec')
    if v == 'inconclusive':
        return {'verdict': 'inconclusive', 'reason': out[:200]}
    failed = []
    if v == 'sat':
        failed.append({'description': 'an appointment under a breached locator can be judged without its own blob being decrypted in that iteration',
                       'function': 'Watcher::handle_breaches', 'schedule': [e[1] for e in body[i] if e[0] == 'call'][-12:]})
    # data-flow: operands
    blk = {b.id: b for b in f.blocks.values()}
    la = [b for b in f.blocks.values() if b.term['kind'] == 'call' and b.term['callee'].endswith('DBM::load_appointment')]
    de = [b for b in f.blocks.values() if b.term['kind'] == 'call' and re.search(r'(?:^|::)decrypt$', b.term['callee'])]
    hb = [b for b in f.blocks.values() if b.term['kind'] == 'call' and b.term['callee'].endswith('Responder::handle_breach')]
    eb = [b for b in f.blocks.values() if b.term['kind'] == 'call' and b.term['callee'].endswith('ExtendedAppointment::encrypted_blob')]
    flow_ok = False
    if len(la) == 1 and len(de) == 1 and len(hb) == 1 and len(eb) >= 1:
        uuid_local = la[0].term['args'][-1].split()[-1]
        flow_ok = hb[0].term['args'][1].split()[-1] == uuid_local
        blob_dest = eb[0].term['dest']
        # decrypt's first operand is (a copy/deref of) the blob reference
        first = de[0].term['args'][0].split()[-1]
        stm = ' '.join(x for b in f.blocks.values() for x in b.stmts)
        via_call = any(b.term['kind'] == 'call' and b.term['dest'] == first and any(a.split()[-1] == blob_dest for a in b.term['args'])
                       for b in f.blocks.values())
        flow_ok = flow_ok and (first == blob_dest or via_call or re.search(r'%s = [^;]*%s' % (re.escape(first), re.escape(blob_dest)), stm) is not None)
        # ... and that blob is the one of the appointment loaded in this iteration (encrypted_blob(&<unwrap of load_appointment>))
        app_ref = eb[0].term['args'][0].split()[-1]
        m = re.search(r'%s = &(_\d+);' % re.escape(app_ref), stm)
        app_local = m.group(1) if m else None
        unwraps = [b for b in f.blocks.values() if b.term['kind'] == 'call' and b.term['dest'] == app_local and re.search(r'Option::<ExtendedAppointment>::unwrap$', b.term['callee'])]
        flow_ok = flow_ok and len(unwraps) == 1 and unwraps[0].term['args'][0].split()[-1] == la[0].term['dest']
        # the uuid local is the payload of the iterator's Option (assigned from the `next` result)
        nd = nxt[0].term['dest']
        flow_ok = flow_ok and re.search(r'%s = (?:copy|move) \(\(%s as Some\)\.0' % (re.escape(uuid_local), re.escape(nd)), stm) is not None
    if not flow_ok and not failed:
        # the syntactic data-flow facts could not be re-established on this tree: that is not evidence of a defect
        return {'verdict': 'inconclusive', 'reason': 'data-flow facts of handle_breaches (uuid / blob operands) not recognised on this tree', 'queries': 1, 'solver_s': dt}
    return {'verdict': 'fails' if failed else 'holds', 'failed': failed, 'queries': 1, 'solver_s': dt,
            'witness': {'loop_body_paths': len(body), 'sample': [e[1] for e in body[0] if e[0] == 'call'][-10:]},
            'functions': ['Watcher::handle_breaches']}


def q_plugin_startup_retry(o, tier):
    """C14/C13: when the client starts (WTClient::with_proxy), a tower is handed to the retry manager only on the true edge of
    `status.is_temporary_unreachable()` — towers with a stored misbehaviour proof (status Misbehaving) are never queued,
    whatever pending data they still have."""
    funcs, idx, t_mir, err = load_mir('watchtower-plugin', 'lib')
    if funcs is None:
        return {'verdict': 'inconclusive', 'reason': 'MIR dump failed'}
    name = [n for n in funcs if re.match(r'^wt_client::<impl at .*?>::with_proxy::\{closure#0\}$', n)]
    if len(name) != 1:
        return {'verdict': 'inconclusive', 'reason': 'WTClient::with_proxy not found'}
    f = funcs[name[0]]
    rows = enum_paths(f, 'bb0', r'UnboundedSender::<.*>::send$')
    if rows is None:
        return {'verdict': 'inconclusive', 'reason': 'path explosion'}
    rows = [r for r in rows if r[-1][0] == 'stop']
    if not rows:
        return {'verdict': 'inconclusive', 'reason': 'vacuous: no send at start-up'}

    def guarded(r):
        br = [e for e in r if e[0] == 'branch' and e[1] == 'TowerStatus::is_temporary_unreachable']
        return bool(br) and br[-1][2] != '0'
    v, i, dt, out = _exists(rows, lambda r: not guarded(r), 'startup')
    if v == 'inconclusive':
        return {'verdict': 'inconclusive', 'reason': out[:200]}
    failed = []
    if v == 'sat':
        failed.append({'description': 'at start-up a tower can be queued for retrying without its status being temporary-unreachable (e.g. a misbehaving tower with pending data)',
                       'function': 'WTClient::with_proxy', 'schedule': [list(e) for e in rows[i] if e[0] in ('branch',)][-6:]})
    return {'verdict': 'fails' if failed else 'holds', 'failed': failed, 'queries': 1, 'solver_s': dt,
            'witness': {'paths_to_send': len(rows), 'sample': [list(e) for e in rows[0] if e[0] == 'branch'][-4:]}, 'functions': ['WTClient::with_proxy']}


def q_slot_update_atomic(o, tier):
    """C10.M3: concurrent registrations, submissions and refunds never lose a slot update. For every pair of
    Gatekeeper operations that change a user's record (add_update_user, add_update_appointment, delete_appointments with
    refund) the in-memory write and the persisted write form one critical section: no interleaving lets thread A write
    memory before B but the database after B (memory and database would disagree at quiescence), nor lets B read the
    balance between A's read and A's write."""
    funcs, idx, t_mir, err = load_mir('teos')
    if funcs is None:
        return {'verdict': 'inconclusive', 'reason': 'MIR dump failed'}

    def alpha(c):
        if re.match(r'^DBM::(update_user|store_user|batch_remove_appointments)$', c):
            return 'db_write'
        if re.match(r'^(?:std::collections::)?HashMap::<(?:UserId|TowerId), UserInfo>::(get_mut|get|insert|entry)', c):
            return 'mem_access'
        return None
    sk = SK.Skeletons(funcs, idx, teos_lock_name, alpha,
                      event_filter=lambda ev: ev[0] == 'call' or (ev[0] in ('acq', 'rel') and ev[1] in ('users', 'dbm')))
    names = {}
    for short_name in ('add_update_user', 'add_update_appointment', 'delete_appointments'):
        n = [x for x in funcs if re.match(r'^gatekeeper::<impl at .*?>::%s$' % short_name, x)]
        if len(n) != 1:
            return {'verdict': 'inconclusive', 'reason': '%s not found' % short_name}
        def typed_ok(t):
            # the users map can only be touched through its MutexGuard (borrow checker): a path on which the map is accessed
            # while the extractor believes the lock is not held combines branches that cannot occur together
            # (e.g. `refund.then(|| lock)` not taken but `if let Some(guard)` taken) and is discarded
            held = 0
            for e in t:
                if e == ('acq', 'users'):
                    held += 1
                elif e == ('rel', 'users'):
                    held -= 1
                elif e == ('call', 'mem_access') and held <= 0:
                    return False
            return True
        tr = [t for t in sk.traces(n[0]) if ('call', 'db_write') in t and ('call', 'mem_access') in t and typed_ok(t)]
        if not tr:
            return {'verdict': 'inconclusive', 'reason': 'vacuous: no writing trace in %s' % short_name}
        names[short_name] = sorted(set(tr))
    if sk.problems:
        return {'verdict': 'inconclusive', 'reason': '; '.join(sk.problems[:2])}
    failed, queries, solver_s = [], 0, 0.0
    ops = sorted(names)
    for a in ops:
        for b in ops:
            for ta in names[a]:
                for tb in names[b]:
                    ia_m = max(k for k, e in enumerate(ta) if e == ('call', 'mem_access'))
                    ia_first = min(k for k, e in enumerate(ta) if e == ('call', 'mem_access'))
                    ia_d = max(k for k, e in enumerate(ta) if e == ('call', 'db_write'))
                    ib_m = max(k for k, e in enumerate(tb) if e == ('call', 'mem_access'))
                    ib_d = max(k for k, e in enumerate(tb) if e == ('call', 'db_write'))
                    # (1) A's memory write before B's, but A's database write after B's
                    for orders, what in (([('a', ia_m, 'b', ib_m), ('b', ib_d, 'a', ia_d)], 'memory and database written in opposite orders'),
                                         ([('a', ia_first, 'b', ib_m), ('b', ib_m, 'a', ia_d)], 'another update lands between the read of the record and its persisted write')):
                        text = _interleave_query(ta, tb, orders, None)
                        v, out, dt = smt(text)
                        queries += 1
                        solver_s += dt
                        if v == 'inconclusive':
                            return {'verdict': 'inconclusive', 'reason': out[:200]}
                        if v == 'sat':
                            failed.append({'description': 'lost / diverging slot update: %s' % what,
                                           'function': 'Gatekeeper::%s | Gatekeeper::%s' % (a, b),
                                           'schedule': {'A': [list(e) for e in ta], 'B': [list(e) for e in tb]}})
                            break
                    if failed:
                        break
                if failed:
                    break
            if failed:
                break
        if failed:
            break
    return {'verdict': 'fails' if failed else 'holds', 'failed': failed, 'queries': queries, 'solver_s': solver_s,
            'witness': {k: [list(e) for e in v[0]] for k, v in names.items()}, 'functions': sorted(short(x) for x in sk.functions_seen)}


def _fn_calls(f):
    return [call_short(b.term['callee']) for b in f.blocks.values() if b.term['kind'] == 'call' and not b.cleanup]


def q_wtclient_frames(o, tier):
    """C05/C18 (structural frame conditions): each WTClient bookkeeping method touches exactly its own table: the set of
    client-DBM methods it calls is the expected one, so that recording an appointment as accepted / pending / invalid for
    one tower cannot delete or rewrite another record (the SQL reference counting of delete_pending_appointment removes the
    shared appointment body when the *last* reference goes: a second, unintended delete destroys another tower's data)."""
    funcs, idx, t_mir, err = load_mir('watchtower-plugin', 'lib')
    if funcs is None:
        return {'verdict': 'inconclusive', 'reason': 'MIR dump failed'}
    expect = {
        'add_appointment_receipt': {'store_appointment_receipt'},
        'add_pending_appointment': {'store_pending_appointment'},
        'remove_pending_appointment': {'delete_pending_appointment'},
        'add_invalid_appointment': {'store_invalid_appointment'},
        'flag_misbehaving_tower': {'store_misbehaving_proof'},
        'remove_tower': {'remove_tower_record'},
        'add_update_tower': {'load_tower_record', 'store_tower_record'},
    }
    rows, missing = [], []
    for m, want in expect.items():
        n = [x for x in funcs if re.match(r'^wt_client::<impl at .*?>::%s$' % m, x)]
        if len(n) != 1:
            missing.append(m)
            continue
        # only calls that change the database count: an extra read (load_*, exists_*) cannot destroy another record
        got = {c.split('::')[-1] for c in _fn_calls(funcs[n[0]]) if c.startswith('DBM::')}
        got = {g for g in got if re.match(r'^(store|delete|remove|update|batch|drop|clear|insert|replace)', g) or g in want}
        rows.append((m, sorted(got), sorted(want)))
    if missing:
        return {'verdict': 'inconclusive', 'reason': 'WTClient methods not found: %s' % missing}
    v, i, dt, out = _exists(rows, lambda r: r[1] != r[2], 'frames')
    if v == 'inconclusive':
        return {'verdict': 'inconclusive', 'reason': out[:200]}
    failed = []
    if v == 'sat':
        bad = [r for r in rows if r[1] != r[2]]
        for r in bad:
            failed.append({'description': 'WTClient::%s changes the client database through %s, expected exactly %s' % r,
                           'function': 'WTClient::%s' % r[0]})
    return {'verdict': 'fails' if failed else 'holds', 'failed': failed, 'queries': 1, 'solver_s': dt,
            'witness': {r[0]: r[1] for r in rows}, 'functions': ['watchtower_plugin::wt_client::WTClient::*']}


def q_single_height_read(o, tier):
    """C08 (structural): Watcher::add_appointment reads the tower height exactly once per request; the value stored with the
    appointment (ExtendedAppointment::new) and the start block of the receipt (AppointmentReceipt::new) are therefore the same
    number even when a block is connected or disconnected while the request waits for a lock."""
    funcs, idx, t_mir, err = load_mir('teos')
    if funcs is None:
        return {'verdict': 'inconclusive', 'reason': 'MIR dump failed'}
    n = [x for x in funcs if re.match(r'^watcher::<impl at .*?>::add_appointment$', x)]
    if len(n) != 1:
        return {'verdict': 'inconclusive', 'reason': 'add_appointment not found'}
    f = funcs[n[0]]
    rows = enum_paths(f, 'bb0')
    if rows is None:
        return {'verdict': 'inconclusive', 'reason': 'path explosion'}
    ok_rows = [r for r in rows if ('call', 'AppointmentReceipt::new') in r]
    if not ok_rows:
        return {'verdict': 'inconclusive', 'reason': 'vacuous: no accepting path'}
    loads = lambda r: sum(1 for e in r if e[0] == 'call' and re.search(r'Atomic(?:U32)?::load$', e[1]))
    v, i, dt, out = _exists(ok_rows, lambda r: loads(r) != 1 or ('call', 'ExtendedAppointment::new') not in r, 'height')
    if v == 'inconclusive':
        return {'verdict': 'inconclusive', 'reason': out[:200]}
    failed = []
    if v == 'sat':
        failed.append({'description': 'an accepted request reads the tower height %d times: the start block in the receipt and the one stored can differ when a block event interleaves' % loads(ok_rows[i]),
                       'function': 'Watcher::add_appointment', 'schedule': [e[1] for e in ok_rows[i] if e[0] == 'call' and ('load' in e[1] or '::new' in e[1])]})
    return {'verdict': 'fails' if failed else 'holds', 'failed': failed, 'queries': 1, 'solver_s': dt,
            'witness': {'accepting_paths': len(ok_rows), 'height_reads_on_first': loads(ok_rows[0])}, 'functions': ['Watcher::add_appointment']}


def q_uuid_derivation(o, tier):
    """C06 (structural): UUID::new hashes the locator followed by the *full* serialised public key of the user
    (PublicKey::serialize, 33 bytes incl. the parity byte): distinct users get distinct uuids for the same locator."""
    funcs, idx, t_mir, err = load_mir('teos')
    if funcs is None:
        return {'verdict': 'inconclusive', 'reason': 'MIR dump failed'}
    n = [x for x in funcs if re.match(r'^extended_appointment::<impl at .*?>::new$', x) and funcs[x].params and 'Locator' in funcs[x].params[0][1]]
    if len(n) != 1:
        return {'verdict': 'inconclusive', 'reason': 'UUID::new not found (%d)' % len(n)}
    calls = _fn_calls(funcs[n[0]])
    key_calls = [c for c in calls if re.search(r'PublicKey::|XOnlyPublicKey::|UserId::', c)]
    rows = [tuple(key_calls)]
    good = lambda r: list(r) == ['PublicKey::serialize']
    if not any('Locator::to_vec' in c or 'Locator' in c for c in calls) or not any('hash' in c.lower() for c in calls):
        return {'verdict': 'inconclusive', 'reason': 'UUID::new has an unrecognised shape: %s' % calls[:8]}
    v, i, dt, out = _exists(rows, lambda r: not good(r), 'uuid')
    if v == 'inconclusive':
        return {'verdict': 'inconclusive', 'reason': out[:200]}
    failed = []
    if v == 'sat':
        failed.append({'description': 'UUID::new does not hash the full serialised user key (calls on the key: %s): different users can share a uuid' % (key_calls,),
                       'function': 'UUID::new'})
    return {'verdict': 'fails' if failed else 'holds', 'failed': failed, 'queries': 1, 'solver_s': dt,
            'witness': {'calls': calls[:10]}, 'functions': ['extended_appointment::UUID::new']}


QUERIES = {
    'lock_order': q_lock_order,
    'api_guard': q_api_guard,
    'poll_best_tip': q_poll_best_tip,
    'missed_breach': q_missed_breach,
    'double_charge': q_double_charge,
    'slot_update_atomic': q_slot_update_atomic,
    'per_appointment_decrypt': q_per_appointment_decrypt,
    'cv_waiter': q_cv_waiter,
    'plugin_must_record': q_plugin_must_record,
    'plugin_register_verify': q_plugin_register_verify,
    'plugin_send_appointment': q_plugin_send_appointment,
    'retrier_run': q_retrier_run,
    'retry_progress': q_retry_progress,
    'wtclient_frames': q_wtclient_frames,
    'single_height_read': q_single_height_read,
    'uuid_derivation': q_uuid_derivation,
    'plugin_startup_retry': q_plugin_startup_retry,
    'responder_block_order': q_responder_block_order,
    'insert_conflict': q_insert_conflict,
    'purge_race': q_purge_race,
    'retry_data_kept': q_retry_data_kept,
    'purge_vs_store': q_purge_vs_store,
    'mirror_reload': q_mirror_reload,
    'retrier_end_state': q_retrier_end_state,
    'retrier_start_status': q_retrier_start_status,
    'registration_extends': q_registration_extends,
    'monitor_polls_always': q_monitor_polls_always,
    'retain_rule': q_retain_rule,
}


def run(prop, obligations, tier, seed):
    for o in obligations:
        t0 = time.time()
        try:
            r = QUERIES[o['query']](o, tier)
        except Exception as e:  # encoder does not understand the tree: never a pass
            import traceback
            r = {'verdict': 'inconclusive', 'reason': 'encoder error: %s' % traceback.format_exc()[-600:]}
        r.setdefault('failed', [])
        r['time_s'] = round(time.time() - t0, 1)
        w = json.dumps(r.get('witness', ''))
        r.setdefault('states', max(1, len(re.findall(r'\[', w))))
        r.setdefault('transitions', max(1, r.get('queries') or 1))
        yield {'obligation': o, 'result': r}, {'cmd': 'mir_engine.%s (cargo +nightly rustc -Zunpretty=mir; z3 -in; cvc5 --lang smt2)' % o['query']}
