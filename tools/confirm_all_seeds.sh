#!/bin/bash
# Re-confirms every seeded change against the current /repo HEAD in a scratch worktree:
#  with patch+demo: only the demo test fails; with demo only: the demo passes.
cd /verif
for d in seeded/*/; do
  s=$(basename $d)
  t=$(grep -oE "^\+\s*(async )?fn (test_[a-z_0-9]+|verif_[a-z_0-9]+)" $d/demo.diff | tail -1 | grep -oE "(test|verif)_[a-z_0-9]+")
  WT=/root/scratch/confirm
  git -C /repo worktree remove --force $WT 2>/dev/null; git -C /repo worktree prune
  git -C /repo worktree add -q $WT HEAD || { echo "$s: worktree failed"; continue; }
  cp -r /repo/target $WT/target
  cd $WT
  if ! git apply /verif/$d/patch.diff 2>/dev/null; then echo "$s: PATCH DOES NOT APPLY to current HEAD"; cd /verif; continue; fi
  if ! git apply /verif/$d/demo.diff 2>/dev/null; then echo "$s: DEMO DOES NOT APPLY to current HEAD"; cd /verif; continue; fi
  with=$(timeout 3000 cargo test --workspace --offline --no-fail-fast 2>&1 | grep -E "^test .*FAILED" | sed 's/ \.\.\. FAILED//' | tr '\n' ' ')
  git apply -R /verif/$d/patch.diff
  without=$(timeout 3000 cargo test --workspace --offline --no-fail-fast 2>&1 | grep -E "^test .*FAILED|^test result: FAILED|^error" | head -3 | tr '\n' ' ')
  echo "$s: demo=$t | failing with change: [$with] | failing without change: [$without]"
  cd /verif
done
git -C /repo worktree remove --force /root/scratch/confirm 2>/dev/null; git -C /repo worktree prune
