#!/bin/bash
# dev helper: run harnesses (substring filters) on teos with caps; usage: k1.sh <timeout_s> <jobs> <filter>...
T=$1; J=$2; shift 2
H=""; for f in "$@"; do H="$H --harness $f"; done
cd /repo/${CRATE:-teos} && (ulimit -v ${MEMKB:-12000000}; env CARGO_HOME=/verif/.cache/cargo-home RUSTFLAGS="--cfg secp256k1_fuzz" timeout $((T*3+300)) cargo kani --lib --target-dir /verif/.cache/${TD:-kani-teos2} -Z stubbing -Z unstable-options -Z async-lib --output-format terse --no-assertion-reach-checks --no-memory-safety-checks -j $J $H --harness-timeout $T --export-json /verif/.cache/out/${OUTTAG:-k1}.json --cbmc-args --unwindset memcmp.0:66 > /verif/.cache/out/${OUTTAG:-k1}.log 2>&1; grep -E "^error" -A8 /verif/.cache/out/${OUTTAG:-k1}.log | head -40; python3 - <<'PY'
import json
try:
    import os
    d=json.load(open('/verif/.cache/out/%s.json' % os.environ.get('OUTTAG','k1')))
except Exception as e:
    print('no json', e); raise SystemExit
st={c['harness_id']:(c.get('cbmc_stats') or {}) for c in d['cbmc']}
er={e['harness_id']:e for e in d['error_details']}
for r in d['verification_results']['results']:
    s=st.get(r['harness_id'],{})
    print(r['harness_id'].split('::')[-1], r['status'], '%.0fs'%(r['duration_ms']/1000), 'symex=%s ssa=%s sat=%s steps=%s'%(s.get('runtime_symex_s'),s.get('runtime_convert_ssa_s'),s.get('runtime_solver_s'),s.get('size_program_expression')), er.get(r['harness_id'],{}).get('exit_status',''))
    for c in r['checks']:
        if c['status']=='Failure': print('    FAIL', c['description'][:100], '|', c['function'][-60:], c['location']['line'])
        if c['category']=='cover' and c['status']!='Satisfied': print('    COVER', c['description'], c['status'])
PY
)
