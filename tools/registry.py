"""Obligations per property. Every obligation is decided by a solver run (see ./check)."""

COMMON_MODELS_TEOS = [
    'models/collections.rs: fixed-capacity (4) HashMap/HashSet replaces std::collections under cfg(kani); a 5th entry ends the path',
    'models/stubs_teos.rs: Header::block_hash / Transaction::compute_txid replaced by injective models (nonce / lock_time copied into the hash) = collision freeness of SHA-256d',
    'memory-safety (pointer) checks of CBMC are off: the code under test is safe Rust; overflow, bounds, unwrap/expect/panic and unwinding checks are on',
]

PROPS = {}


def K(pid, oid, crate, harness, what, tier='quick', timeout=None):
    o = {'id': oid, 'engine': 'kani', 'crate': crate, 'harness': harness, 'what': what, 'tier': tier}
    if timeout:
        o['timeout'] = timeout
    PROPS[pid]['obligations'].append(o)


def T(pid, oid, what, tier='quick'):
    PROPS[pid]['obligations'].append({'id': oid, 'engine': 'twin', 'what': what, 'tier': tier})


def M(pid, oid, query, what, tier='quick', **kw):
    o = {'id': oid, 'engine': 'mir', 'query': query, 'what': what, 'tier': tier}
    o.update(kw)
    PROPS[pid]['obligations'].append(o)


# ----------------------------------------------------------------------------------------------- C19
PROPS['C19'] = {
    'level': 'model_checking',
    'technique': 'bounded symbolic model checking of the real TxIndex source with Kani/CBMC (cadical): one '
                 'inductive step per index shape, block contents and heights symbolic',
    'bounds': 'TxIndex<K8,V8> (1-byte key/value instantiation of the generic source), index size N in {1,2} quick / '
              '{1,2,3} thorough, D in 0..N disconnections before the step, key universe 2 (N<=2) or 3 (N=3), '
              'bootstrap height any u32 in [N-1, u32::MAX-5], unwind 7, memcmp unwind 66',
    'outside': 'production sizes 6/100 (the code is size-parametric; not re-proved), reorgs deeper than the index, '
               'std HashMap itself (replaced by a finite-map model), TxIndex::new\'s PoW-validated block input '
               '(the bootstrap loop body = update() is what is driven)',
    'assumptions': ['a transaction id occurs at most once among the blocks of the active window (BIP30/34)',
                    'blocks are disconnected tip-first (lightning-block-sync contract)'] + COMMON_MODELS_TEOS,
    'models': COMMON_MODELS_TEOS,
    'harness_timeout': {'quick': 900, 'thorough': 1500},
    'obligations': [],
}
_p = 'tx_index::verif_harness::'
for n, dmax, tier in ((1, 1, 'quick'), (2, 2, 'quick'), (3, 3, 'thorough')):
    for d in range(0, dmax + 1):
        K('C19', 'K1.step.n%d.d%d.connect' % (n, d), 'teos', _p + 'c19_step_n%d_d%d_connect' % (n, d),
          'N=%d, after %d disconnections, connect any block: look-ups = last N active blocks, true heights, gone blocks unknown' % (n, d), tier)
        if d < n:
            K('C19', 'K1.step.n%d.d%d.disconnect' % (n, d), 'teos', _p + 'c19_step_n%d_d%d_disconnect' % (n, d),
              'N=%d, after %d disconnections, disconnect the tip: same post-condition' % (n, d), tier)
K('C19', 'K3.production_keys', 'teos', _p + 'c19_production_keys',
  'Locator key = first 16 bytes of the txid for all 32-byte ids; Txid key = identity')

# ----------------------------------------------------------------------------------------------- C09
DBM_MODEL = ('models/dbm_tower.rs: relational model of teos::dbm::DBM (tables with PK uniqueness, FK checks, ON DELETE CASCADE, '
             'the <=/= rule of load_trackers_with_confirmation_status); replaces rusqlite under cfg(kani); SQL text itself is outside the encoding')
GK_ASSUME = ['pre-states: arbitrary UserInfo records / configuration / heights constrained only by "memory copy == database copy of every user"',
             'users passed to gatekeeper calls are registered where the code documents it ("inputs are always sanitized")',
             DBM_MODEL] + COMMON_MODELS_TEOS
_g = 'gatekeeper::verif_harness::'
PROPS['C09'] = {
    'level': 'model_checking',
    'technique': 'bounded symbolic model checking of the real Gatekeeper source with Kani/CBMC: one operation from an arbitrary '
                 'pre-state, heights and the three configuration values over the full u32 range',
    'bounds': '<=2 registered users (+1 unregistered key), <=2 appointments and 1 tracker in the database model, all heights / expiry / '
              'duration / grace / slot values full u32 (including 0, 1, u32::MAX), unwind 6, memcmp unwind 66',
    'outside': 'several blocks per poll and reorg sequences are covered through the one-step formulation (any height in, any state in) only; '
               'the SQL of batch_remove_users and its ON DELETE CASCADE (model); the propagation of SubscriptionExpired(expiry) through '
               'Watcher/InternalAPI is decided by Engine M (C06/C09 M obligations) when present',
    'assumptions': GK_ASSUME + ['genesis is never disconnected (height >= 1 on block_disconnected)'],
    'models': [DBM_MODEL] + COMMON_MODELS_TEOS,
    'harness_timeout': {'quick': 900, 'thorough': 1800},
    'obligations': [],
}
K('C09', 'K1.expired_iff', 'teos', _g + 'c09_k1_expired_iff', 'has_subscription_expired <=> height >= expiry; reports the stored expiry; read-only')
K('C09', 'K2.outdated_iff', 'teos', _g + 'c09_k2_outdated_iff', 'get_outdated_users(h) = {u : h >= expiry_u + grace} computed in N (no u32 wrap)')
for _n, _w in (('none', 'nobody outdated'), ('first', 'user 0 outdated (height == expiry + grace), user 1 one block short'),
               ('second', 'user 1 outdated, user 0 one block short'), ('both', 'both outdated')):
    K('C09', 'K3.purge_' + _n, 'teos', _g + 'c09_k3_purge_' + _n,
      'filtered_block_connected at the boundary height, %s: exactly the users get_outdated_users selects leave memory and DB with their appointments/trackers; others bit-identical; height recorded' % _w)
K('C09', 'K3.block_connected_no_users', 'teos', _g + 'c09_k3_block_connected_no_users', 'a block connected to a tower without registered users still records the height (any height, any configuration); the registration that follows starts at that height')
K('C09', 'K4.disconnect', 'teos', _g + 'c09_k4_disconnect_height', 'block_disconnected(h): height := h-1, users untouched, expiry check honours it')
K('C09', 'K5.register_new', 'teos', _g + 'c09_k5_register_new', 'new user: start = h, expiry = min(h+duration, u32::MAX), configured slots; memory == DB == receipt')
K('C09', 'K5.renew', 'teos', _g + 'c09_k5_renew', 'renewal: expiry += duration (saturating), slots += configured (checked); refused renewal changes nothing; memory == DB == receipt')

# ----------------------------------------------------------------------------------------------- C07
PROPS['C07'] = {
    'level': 'model_checking',
    'technique': 'bounded symbolic model checking with Kani/CBMC: bit-precise f32 slot formula for every blob length <= 2^24, and one '
                 'accounting operation of the real Gatekeeper from an arbitrary pre-state (conservation as an inductive step)',
    'bounds': 'slot formula: every length <= 2^24 (16 MiB, above the 4 MiB gRPC cap); gatekeeper steps: 2 users, blob lengths any value '
              '<= 18432 bytes (9 slots, symbolic), balances full u32, <=3 appointment rows, unwind 6',
    'outside': 'SQL UPDATE users (model); concurrency of the two copies (C10); that the Watcher stores the blob it was charged for is C08; '
               'restarts; lengths above 2^24 bytes',
    'assumptions': GK_ASSUME + ['representation invariant: available_slots + slots of the appointments being refunded fits u32 '
                                '(total granted fits the counter; see DESIGN F14 for why registrations do not enforce it)'],
    'models': [DBM_MODEL] + COMMON_MODELS_TEOS,
    'harness_timeout': {'quick': 900, 'thorough': 1800},
    'obligations': [],
}
K('C07', 'K2.charge_new', 'teos', _g + 'c07_k2_charge_new', 'add_update_appointment, new uuid: Ok(s) <=> slots(new) <= available; s = available - slots(new) = memory = DB; Err changes nothing')
K('C07', 'K2.charge_update', 'teos', _g + 'c07_k2_charge_update', 'add_update_appointment, replacement: charges/returns exactly slots(new) - slots(old)')
K('C07', 'K3.register_new', 'teos', _g + 'c09_k5_register_new', 'registration grants exactly the configured slots; memory == DB == receipt')
K('C07', 'K3.renew', 'teos', _g + 'c09_k5_renew', 'renewal adds exactly the configured slots with overflow check; refused renewal changes nothing')
K('C07', 'K4.refund_one', 'teos', _g + 'c07_k4_delete_refund_one', 'delete_appointments(refund): owner gets exactly slots(blob) back in memory and DB; rows gone; bystanders untouched')
K('C07', 'K4.refund_two', 'teos', _g + 'c07_k4_delete_refund_two', 'delete_appointments(refund) of two appointments with symbolic owners (same / different)')
K('C07', 'K4.norefund_one', 'teos', _g + 'c07_k4_delete_norefund_one', 'delete_appointments(no refund): no balance moves (single-row fast path)')
K('C07', 'K4.norefund_two', 'teos', _g + 'c07_k4_delete_norefund_two', 'delete_appointments(no refund): no balance moves (batch path)')
_c = 'verif_harness::'
K('C07', 'K1.slot_formula', 'teos-common', _c + 'c07_k1_slot_formula', 'compute_appointment_slots(n, 2048) == max(1, ceil(n/2048)) for every n <= 2^24 (bit-precise f32)')

# ----------------------------------------------------------------------------------------------- C06 (K part)
PROPS['C06'] = {
    'level': 'model_checking',
    'technique': 'Kani/CBMC on Gatekeeper::authenticate_user with an arbitrary-result stub for signature recovery, plus Engine M '
                 'path queries on the Watcher request handlers (see obligations)',
    'bounds': '2 registered users + 1 unregistered key; recover_pk returns any of {error, key of user 0/1/2}',
    'outside': 'that a signature made for one message does not recover to the same key for another message is ECDSA\'s property '
               '(libsecp256k1, FFI) and is assumed: recover_pk is an arbitrary-result stub, so everything holds for whatever it returns',
    'assumptions': GK_ASSUME,
    'models': [DBM_MODEL] + COMMON_MODELS_TEOS,
    'harness_timeout': {'quick': 900, 'thorough': 1800},
    'disabled': True,   # enabled once the Watcher-level obligations exist
    'obligations': [],
}
K('C06', 'K1.authenticate', 'teos', _g + 'c06_k1_authenticate', 'authenticate_user: Ok(u) <=> recovery succeeded and u is registered; no state change')
K('C06', 'K4.isolation_charge', 'teos', _g + 'c07_k2_charge_update', 'add_update_appointment leaves the other user\'s record bit-identical (memory and DB)')
K('C06', 'K4.isolation_register', 'teos', _g + 'c09_k5_renew', 'add_update_user leaves the other user\'s record bit-identical (memory and DB)')


# ----------------------------------------------------------------------------------------------- C12 (K part), C01/C02/C04
BITCOIND_MODEL = ('models/bitcoind.rs: the two RPCs the Carrier uses return any outcome (Ok / Rpc{any i32 code} / transport / other error); '
                  'light shape-compatible error enums replace bitcoincore_rpc::Error under cfg(kani); transport errors bounded by a budget')
HANG_STUB = ('Carrier::hang_until_bitcoind_reachable (condvar wait, a futex Kani cannot execute) is replaced by a stub that records the flag and '
             'puts it back up = "the chain monitor\'s next successful poll happened"; the wait itself is Engine M\'s subject')
CARRIER_CONTRACT = ('Responder loops (handle_reorged_txs, rebroadcast_stale_txs) are verified against the contract of Carrier::send_transaction '
                    '(stub send_transaction_contract) that c12_k1_send_through_outage establishes, not through its code')
SHAPES = ('pre-state *shapes* (which rows exist, set membership, enum discriminants, what the node/cipher answers) are concrete per harness and '
          'enumerated; scalars that do not steer control flow (heights, balances, delays) are symbolic over their full range')
_ca = 'carrier::verif_harness::'
_r = 'responder::verif_harness::'
_w = 'watcher::verif_harness::'

PROPS['C12'] = {
    'level': 'model_checking',
    'technique': 'Kani/CBMC on Carrier::{send_transaction,in_mempool} with a node model that may fail with transport errors (bounded), plus '
                 'Engine M (MIR -> SMT) schedule/order queries on the condvar protocol and the API guard',
    'bounds': 'outage length k <= 2 transport errors per call (recursion unwound 5), any node reply afterwards (RPC error code full i32), carrier height full u32',
    'outside': 'lightning_block_sync::SpvClient partial-progress semantics, timing ("after k polls"), multi-block polls; the condvar wait is cut by a stub in the K part',
    'assumptions': [BITCOIND_MODEL, HANG_STUB] + COMMON_MODELS_TEOS,
    'models': [BITCOIND_MODEL, HANG_STUB],
    'harness_timeout': {'quick': 900, 'thorough': 1800},
    'obligations': [],
}
K('C12', 'K1.send_through_outage', 'teos', _ca + 'c12_k1_send_through_outage', 'send_transaction through k<=2 transport errors: same transaction re-submitted, flag down after each error, nothing memoised for a failed attempt, verdict = first non-transport reply; memoised afterwards')
K('C12', 'K1.in_mempool_through_outage', 'teos', _ca + 'c12_k1_in_mempool_through_outage', 'in_mempool through k<=2 transport errors: query retried with the same id; true <=> Ok reply without block hash; never submits')

PROPS['C04'] = {
    'level': 'model_checking',
    'technique': 'Kani/CBMC on the real Responder functions, one chain event from enumerated pre-state shapes with symbolic heights (inductive step)',
    'bounds': '<=2 trackers, tx index of size 2, heights full u32 (check_confirmations, block_disconnected, handle_reorged_txs, stale threshold); '
              'rebroadcast loop body at concrete heights on both sides of the 6-block threshold with a concrete node verdict; unwind 6',
    'outside': 'multi-block evolutions only through the one-step reading; that the node "knows the new chain" is the symbolic verdict; the <=/= selection rule of '
               'load_trackers_with_confirmation_status is SQL (model); rebroadcast of a stale penalty that the node *accepts* (the harness runs out of memory; the refused and '
               'already-in-chain verdicts and the selection are decided); heights below 6 (F16)',
    'assumptions': [SHAPES, DBM_MODEL, BITCOIND_MODEL, HANG_STUB, CARRIER_CONTRACT,
                    'representation invariant: a tracker recorded ConfirmedIn(h) and not marked reorged has h < the height being connected'] + COMMON_MODELS_TEOS,
    'models': [DBM_MODEL, BITCOIND_MODEL, HANG_STUB, CARRIER_CONTRACT],
    'harness_timeout': {'quick': 900, 'thorough': 1800},
    'obligations': [],
}
for _a in ('inblock', 'absent'):
    for _b in ('reorged', 'fresh'):
        for _c in ('confirmed', 'mempool'):
            K('C04', 'P1.check_confirmations.%s.%s.%s' % (_a, _b, _c), 'teos', _r + 'c04_p1_cc_%s_%s_%s' % (_a, _b, _c),
              'check_confirmations(cur): penalty %s the block, tracker %s, recorded %s(h): confirmed only when seen in a block; complete iff not reorged and cur - h == 100; reorged marks kept until re-confirmation' % (
                  'in' if _a == 'inblock' else 'not in', 'marked reorged' if _b == 'reorged' else 'not reorged', 'ConfirmedIn' if _c == 'confirmed' else 'InMempoolSince'),
              'quick' if (_a, _b, _c) in (('inblock', 'reorged', 'confirmed'), ('absent', 'fresh', 'confirmed'), ('absent', 'reorged', 'confirmed'), ('inblock', 'fresh', 'mempool')) else 'thorough')
for _n, _t in (('confirmed_here', 'quick'), ('confirmed_elsewhere', 'quick'), ('unconfirmed', 'thorough')):
    K('C04', 'P2.block_disconnected.' + _n, 'teos', _r + 'c04_p2_disconnect_' + _n, 'block_disconnected(height), tracker %s: exactly the trackers ConfirmedIn(height) join the reorged set (earlier marks kept); block leaves the index; carrier follows; no status changes; nothing sent' % _n.replace('_', ' '), _t)
K('C04', 'P3.handle_reorged', 'teos', _r + 'c04_p3_handle_reorged', 'handle_reorged_txs: dispute re-announced first, penalty only if the dispute was not refused; not refused => InMempoolSince(height); refused => reported; bystanders untouched')
K('C04', 'P4.rebroadcast_threshold', 'teos', _r + 'c04_p4_rebroadcast_threshold', 'rebroadcast_stale_txs(height) selects InMempoolSince(height - 6) for every height >= 6')
K('C04', 'P4.rebroadcast_fresh', 'teos', _r + 'c04_p4_rebroadcast_fresh_boundary', 'a penalty unconfirmed for 5 blocks and a confirmed tracker are not re-submitted')
K('C04', 'P4.rebroadcast_rejected', 'teos', _r + 'c04_p4_rebroadcast_stale_boundary_rejected', 'a penalty unconfirmed for exactly 6 blocks is re-submitted (the penalty, only it); refused => reported for deletion')
K('C04', 'P4.rebroadcast_f7_witness', 'teos', _r + 'c04_p4_rebroadcast_f7', 'witness of known finding F7: verdict "already in chain" on a re-submission makes rebroadcast_stale_txs unwrap() an error', 'thorough')
K('C04', 'K1.refund_one', 'teos', _g + 'c07_k4_delete_refund_one', 'completed trackers are deleted with refund: owner gets exactly slots(blob) back, once (memory and DB)')
K('C04', 'K1.norefund_one', 'teos', _g + 'c07_k4_delete_norefund_one', 'rejected trackers are deleted without refund')

# ----------------------------------------------------------------------------------------------- Engine M obligations
M_ASSUME = ['Engine M reads the compiler\'s MIR of the current tree (cargo +nightly rustc -Zunpretty=mir): Mutex::<T>::lock / guard drops / Condvar calls / calls into other units are explicit terminators; locks are identified by their payload type (each payload type has one instance in the tower)',
            'branch outcomes are unconstrained (over-approximation: a reported schedule may need infeasible data and is then refined); loops unrolled twice; crate-local callees inlined; unwind (panic) edges are not followed',
            'each API handler and the chain-monitor thread are threads that can be pre-empted at the extracted events; tokio scheduling, fairness and anything inside non-crate callees are not modelled',
            'z3 4.8.12 and cvc5 1.0 must agree on every query; any solver error line makes the obligation inconclusive']
M('C12', 'M1.api_guard', 'api_guard', 'every public API handler (register, add_appointment, get_appointment, get_subscription_info) calls check_service_unavailable before its first lock acquisition or Watcher call (query: exists a trace whose first effect is not the guard)')
M('C12', 'M3.poll_best_tip', 'poll_best_tip', 'ChainMonitor::poll_best_tip: every completed poll that got an answer raises the reachable flag and notifies the condvar afterwards; transient errors lower it; an error poll never raises it')
PROPS['C12']['assumptions'] = PROPS['C12']['assumptions'] + M_ASSUME

PROPS['C11'] = {
    'level': 'model_checking',
    'technique': 'Engine M: lock skeletons extracted from MIR, circular-wait query discharged by z3 and cvc5 over all pairs of concurrently runnable entry points; '
                 'Kani/CBMC panic-freedom (unwrap/expect/overflow/index/unreachable) of the unit steps from enumerated pre-state shapes',
    'bounds': '2 threads (API x API, API x chain event), all InternalAPI handlers and the three Listen implementations as entry points, loops unrolled twice; '
              'panic checks: the Kani harnesses of C01/C04/C07/C09/C19 (their bounds)',
    'outside': 'cycles that need three or more threads; liveness under tokio starvation; panics inside dependencies; the condvar self-wait of the chain thread (F5) is reported under C12',
    'assumptions': M_ASSUME + [SHAPES, DBM_MODEL, BITCOIND_MODEL],
    'models': [DBM_MODEL, BITCOIND_MODEL],
    'harness_timeout': {'quick': 900, 'thorough': 1800},
    'obligations': [],
}
M('C11', 'M1.lock_order', 'lock_order', 'no two concurrently runnable entry points can each hold a lock the other requests (no common gate lock), and no entry point re-acquires a lock it holds')

PROPS['C10'] = {
    'level': 'model_checking',
    'technique': 'Engine M: event skeletons (lock acquire/release + database and cache calls) of add_appointment and of the watcher\'s block connection extracted from MIR; '
                 'z3/cvc5 decide whether an interleaving respecting mutual exclusion reaches the bad order',
    'bounds': '2 threads, every pair of extracted traces (loops unrolled twice), interleavings at event granularity',
    'outside': 'general serialisability/linearizability (only the named race patterns are decided); tokio; data races inside sqlite',
    'assumptions': M_ASSUME,
    'models': [],
    'obligations': [],
}
M('C10', 'M1.missed_breach', 'missed_breach', 'no interleaving lets add_appointment look the locator up before the block\'s cache update and store the appointment after the block was checked against the database (the cache guard is held across look-up and store)')
M('C12', 'M2.cv_waiter', 'cv_waiter', 'every thread that can block in Condvar::wait (Carrier::hang_until_bitcoind_reachable) has a waker in another thread (threads: chain-monitor thread = poll_best_tip + listeners; API handler threads)')

# ----------------------------------------------------------------------------------------------- C20
_cf = 'config::verif_harness::'
PROPS['C20'] = {
    'level': 'model_checking',
    'technique': 'Kani/CBMC on the real Config::{patch_with_options, verify, get_auth_method} and cli_config::Config::patch_with_options',
    'bounds': 'string settings are concrete markers (the code never inspects them); their presence on the command line follows four concrete patterns (all / none / even / odd fields); '
              'numeric settings, their presence and all flags are symbolic; verify(): all 8 credential combinations x network names {mainnet, main, testnet, test, regtest, signet, bogus, ""} x any port',
    'outside': '"file value if present else documented default" is serde\'s #[serde(default)] + toml (trusted, not encoded); structopt parsing of the command line; other network spellings',
    'assumptions': ['fields are patched independently of each other (straight-line code), so four presence patterns exercise every field both ways',
                    'alloc::fmt::format is stubbed (error message of an unknown network is not the subject)'],
    'models': [],
    'harness_timeout': {'quick': 600, 'thorough': 900},
    'obligations': [],
}
for _n in ('all', 'none', 'even', 'odd'):
    K('C20', 'K1.patch.%s_present' % _n, 'teos', _cf + 'c20_patch_%s_present' % _n,
      'patch_with_options, string options %s present: every setting = CLI value if given else file value; debug/deps_debug/tor_support = file OR CLI; overwrite_key/force_update = CLI only' % _n,
      'quick' if _n in ('even', 'odd') else 'thorough')
for _n in ('mainnet', 'main', 'testnet', 'test', 'regtest', 'signet', 'bogus', 'empty'):
    K('C20', 'K2.verify.%s' % _n, 'teos', _cf + 'c20_verify_%s' % _n,
      'verify() on network "%s" for all 8 credential combinations and any port: Ok <=> exactly one auth method and known network; default port iff port == 0; auth-method truth table' % _n,
      'quick' if _n in ('mainnet', 'regtest', 'bogus', 'signet') else 'thorough')
K('C20', 'K4.cli_config', 'teos', _cf + 'c20_cli_config_patch', 'teos-cli Config::patch_with_options: CLI over file for both fields')

# ----------------------------------------------------------------------------------------------- plugin (Engine M only)
PLUGIN_ASSUME = ['MIR of the watchtower-client binary and of the watchtower_plugin library, regenerated from the current tree; paths enumerated with loops unrolled twice, unwind edges not followed, branch outcomes unconstrained except where a branch tests the result of the call named in the obligation',
                 'z3 and cvc5 must agree; any solver error is inconclusive']
PROPS['C05'] = {
    'level': 'model_checking',
    'technique': 'Engine M must-call query on the MIR of the commitment-revocation hook (all paths between a tower\'s reply and the next tower), decided by z3/cvc5',
    'bounds': 'one arbitrary tower iteration (loop unrolled twice), all paths of the lowered async state machine between the Ready edge of http::add_appointment and the next suspension / iteration / return',
    'outside': 'SIGKILL at arbitrary moments (sqlite durability), the retrier path (Retrier::run), duplicate notifications (WTClient bookkeeping methods themselves are not encoded), several towers sharing state, the plugin protocol and reqwest: only the notification-path bookkeeping step is claimed',
    'assumptions': PLUGIN_ASSUME,
    'models': [],
    'obligations': [],
}
M('C05', 'M1.must_record', 'plugin_must_record', 'for every tower and every way the request to it can end, the appointment is recorded exactly once as accepted / pending / invalid or the tower is flagged misbehaving', part='reply')
M('C05', 'M1.skipped_towers', 'plugin_must_record', 'towers that are not contacted (unreachable / subscription error) get the appointment as pending, exactly once, unless they are known to misbehave', part='skipped')
PROPS['C14'] = {
    'level': 'model_checking',
    'technique': 'Engine M guarded-reachability queries on the MIR of register (binary) and send_appointment (library): the trusting action is reachable only through the true edge of the signature comparison',
    'bounds': 'all CFG paths of the two lowered async functions, loops unrolled twice',
    'outside': 'JSON decoding of arbitrary bodies (serde_json/reqwest): huge/empty/HTML bodies enter only as error variants; WTClient::add_update_tower\'s "strictly extends" rule and flag_misbehaving_tower\'s persistence (not encoded); the signature check itself is libsecp256k1',
    'assumptions': PLUGIN_ASSUME,
    'models': [],
    'obligations': [],
}
M('C14', 'M1.register_verify', 'plugin_register_verify', 'register reaches WTClient::add_update_tower only on paths on which RegistrationReceipt::verify(&tower_id) returned true')
M('C14', 'M2.send_appointment', 'plugin_send_appointment', 'send_appointment yields Ok only on paths on which the id recovered from the tower signature equals the tower id; plus witness of F12 (recovered key unwrap()ed)')

# ----------------------------------------------------------------------------------------------- C01 / C02 / C06 / C08 / C11 (K)
CRYPTO_STUBS = ('cryptography::{recover_pk, sign, decrypt} and UUID::new are stubs (models/stubs_teos.rs): recover_pk returns a scripted result and records '
                'the message; sign records the message; decrypt is an ideal cipher on the harness universe (blob [1,d] decrypts under the id of tx(d) only); '
                'UUID::new is injective on the universe')
W_ASSUME = [SHAPES, DBM_MODEL + ' (appointment rows keep blob length + first two bytes, signature first byte; tracker rows keep the transactions\' lock times)',
            BITCOIND_MODEL, CRYPTO_STUBS, CARRIER_CONTRACT + ' (also Carrier::in_mempool in the late-appointment harnesses)'] + COMMON_MODELS_TEOS
PROPS['C01'] = {
    'level': 'model_checking',
    'technique': 'Kani/CBMC on the real Responder::handle_breach, Watcher::store_triggered_appointment and Carrier (unit steps from enumerated pre-state shapes), '
                 'composed through call contracts',
    'bounds': 'one breach / one late appointment; tx index and locator cache of size 2; carrier / index heights full u32; node verdict any (handle_breach) or per shape '
              '{accepted, -26, -27} (late appointments); blob 3 bytes',
    'outside': 'the block-connection path Watcher::filtered_block_connected -> get_breaches -> handle_breaches is not run under Kani (its loop over breaches runs out of memory): '
               'only its lock/call order is checked (C10.M1, C11.M1) and its per-breach step is the same handle_breach; the six-block window is C19; real decryption (stub); '
               'multi-breach blocks; SQL',
    'assumptions': W_ASSUME,
    'models': [DBM_MODEL, BITCOIND_MODEL, CRYPTO_STUBS],
    'harness_timeout': {'quick': 900, 'thorough': 1800},
    'obligations': [],
}
K('C01', 'P3.handle_breach.in_index', 'teos', _r + 'c01_p3_handle_breach_in_index', 'handle_breach, penalty already in the recent-block index: ConfirmedIn(true height), nothing sent, tracker = (dispute, penalty, status, owner)')
K('C01', 'P3.handle_breach.not_in_index', 'teos', _r + 'c01_p3_handle_breach_not_in_index', 'handle_breach, penalty not indexed: in mempool => InMempoolSince(carrier height) unsent; else submitted once, status = node verdict; tracker iff accepted; refused => no write')
K('C01', 'K3.carrier_send', 'teos', _ca + 'c12_k1_send_through_outage', 'Carrier contract: verdict mapping for every node reply, <= 1 answered RPC per transaction and block, never ConfirmedIn')
K('C01', 'K3.carrier_height', 'teos', _ca + 'c01_k3_height', 'accepted now => InMempoolSince(carrier\'s current height)')
K('C01', 'P4.late_accepted', 'teos', _w + 'c01_late_accepted', 'late appointment (dispute in cache): blob decrypted with the dispute id, penalty submitted before answering, appointment + tracker stored with exactly that dispute/penalty')
K('C01', 'P4.late_garbled', 'teos', _w + 'c01_late_garbled', 'late appointment whose blob does not decrypt: nothing sent, nothing stored')
K('C01', 'P4.late_rejected', 'teos', _w + 'c01_late_rejected', 'late appointment whose penalty the node refuses: only that appointment is dropped', 'thorough')
K('C01', 'P4.late_already_in_chain', 'teos', _w + 'c11_late_already_in_chain', 'late appointment whose penalty is already in the chain: no tracker and no orphan row (F15 regression)')
K('C01', 'P5.add_late_calls_store_triggered', 'teos', _w + 'c08_add_new', 'add_appointment without cache hit stores and does not decrypt or send (the cache-hit branch is the unit above)', 'thorough')

PROPS['C02'] = {
    'level': 'model_checking',
    'technique': 'Kani/CBMC: every harness of C01/C04 logs each RPC the real code issues on the node model and asserts what was sent; Engine M call-site query is not needed because the logs are exhaustive per step',
    'bounds': 'as C01 and C04',
    'outside': 'whether bitcoind "had" a penalty is the node\'s answer; owner removal (purge) composes through C09.K3 (rows cascade) and listener order (gatekeeper first) which is not encoded; SQL cascade',
    'assumptions': W_ASSUME,
    'models': [DBM_MODEL, BITCOIND_MODEL, CRYPTO_STUBS],
    'harness_timeout': {'quick': 900, 'thorough': 1800},
    'obligations': [],
}
K('C02', 'P1.handle_breach_sends_penalty_only', 'teos', _r + 'c01_p3_handle_breach_not_in_index', 'handle_breach submits the breach\'s penalty and nothing else, at most once; no tracker (no dispute_responded) unless the node took or had it')
K('C02', 'P1.confirmed_not_sent', 'teos', _r + 'c01_p3_handle_breach_in_index', 'nothing is sent for a penalty that is already confirmed')
K('C02', 'P2.reorged', 'teos', _r + 'c04_p3_handle_reorged', 'after a reorg only the dispute and then the penalty of a reorged tracker are sent; the penalty only if the dispute was not refused')
K('C02', 'P3.rebroadcast_only_stale', 'teos', _r + 'c04_p4_rebroadcast_fresh_boundary', 'nothing is re-submitted for fresh or confirmed trackers')
K('C02', 'P4.garbled_never_sent', 'teos', _w + 'c01_late_garbled', 'nothing is sent for an appointment that fails to decrypt')
K('C02', 'P4.untriggered_never_sent', 'teos', _w + 'c08_add_new', 'nothing is decrypted or sent for an appointment that was not triggered', 'thorough')
K('C02', 'P5.counting_never_sends', 'teos', _r + 'c04_p1_cc_absent_fresh_confirmed', 'check_confirmations and block_disconnected never talk to the node')
K('C02', 'P6.query_never_sends', 'teos', _ca + 'c12_k1_in_mempool_through_outage', 'in_mempool never submits')

PROPS['C06']['disabled'] = False
PROPS['C06']['technique'] = 'Kani/CBMC on Gatekeeper::authenticate_user (arbitrary-result signature recovery) and on Watcher::add_appointment from enumerated request shapes'
PROPS['C06']['bounds'] = '2 registered users + 1 unregistered key; one add_appointment request per shape (bad signature, unregistered key, expired at the boundary height, already triggered, no slots, new, update); heights/balances symbolic'
PROPS['C06']['outside'] = PROPS['C06']['outside'] + '; get_appointment / get_subscription_info handlers (their format!-built messages need real formatting under Kani: not run) are covered only through authenticate_user and has_subscription_expired, which they share'
PROPS['C06']['assumptions'] = W_ASSUME + GK_ASSUME[:2]
K('C06', 'P2.bad_signature', 'teos', _w + 'c06_add_bad_signature', 'add_appointment with an unrecoverable signature: AuthenticationFailure, no write, nothing sent; the authenticated message is the serialised appointment')
K('C06', 'P2.unregistered_key', 'teos', _w + 'c06_add_unregistered_key', 'add_appointment signed by an unregistered key: AuthenticationFailure, no write', 'thorough')
K('C06', 'P2.expired', 'teos', _w + 'c06_add_expired', 'add_appointment at height == expiry: SubscriptionExpired(expiry), no write')
K('C06', 'P4.isolation_add', 'teos', _w + 'c08_add_update', 'an accepted add/update leaves the other user\'s record and the other user\'s appointment for the same locator untouched')

PROPS['C08'] = {
    'level': 'model_checking',
    'technique': 'Kani/CBMC: signed byte layouts (teos-common), registration receipt == persisted values (Gatekeeper), add_appointment receipt fields, signed message and stored row (Watcher request shapes)',
    'bounds': 'layouts: signature / blob <= 4 bytes, all u32; requests: one add_appointment per shape, blob 3 / 2049 / 4097 bytes, heights and balances symbolic',
    'outside': 'sign / verify themselves (libsecp256k1; stubbed: what is decided is *which bytes* are signed); that DBM::{store,update}_appointment write and load_appointment reads back all columns is SQL '
               '(model keeps blob length + 2 bytes, signature first byte); Watcher::register signs the gatekeeper\'s receipt (two-line function, not run under Kani)',
    'assumptions': W_ASSUME,
    'models': [DBM_MODEL, CRYPTO_STUBS],
    'harness_timeout': {'quick': 900, 'thorough': 1800},
    'obligations': [],
}
K('C08', 'K1.appointment_receipt_layout', 'teos-common', 'verif_harness::' + 'c08_k1_appointment_receipt_layout', 'AppointmentReceipt::to_vec = user_signature || start_block(BE): determines both fields')
K('C08', 'K1.registration_receipt_layout', 'teos-common', 'verif_harness::' + 'c08_k1_registration_receipt_layout', 'RegistrationReceipt::to_vec = user id(33) || available_slots || subscription_start || subscription_expiry (BE): every returned field is signed at its own position')
K('C08', 'K1.appointment_layout', 'teos-common', 'verif_harness::' + 'c08_k1_appointment_layout', 'Appointment::to_vec = locator(16) || blob || to_self_delay(BE)')
K('C08', 'K2.registration_receipt', 'teos', _g + 'c09_k5_register_new', 'registration receipt fields == UserInfo in memory == database row')
K('C08', 'K2.renewal_receipt', 'teos', _g + 'c09_k5_renew', 'renewal receipt fields == UserInfo in memory == database row')
K('C08', 'P2.add_new', 'teos', _w + 'c08_add_new', 'accepted new appointment: receipt = (user signature, tower height), tower signs exactly those bytes, returned slots/expiry are the persisted ones, the stored row is the accepted version')
K('C08', 'P2.add_update', 'teos', _w + 'c08_add_update', 'accepted update: same, the stored row is replaced by the accepted version (blob, delay, signature, start block)')
K('C08', 'P2.add_update_same_blob', 'teos', _w + 'c08_add_update_same_blob', 'add_appointment replacing a stored appointment that has the very same blob but an older delay, signature and start block: the stored row is the version the receipt was issued for (delay, signature, start block), no slot changes')
K('C08', 'P3.refused_no_receipt', 'teos', _w + 'c07_add_no_slots', 'no receipt (and no write) without slots', 'thorough')

K('C07', 'P2.add_two_slots', 'teos', _w + 'c07_add_two_slots', 'add_appointment with a 2049-byte blob charges 2 slots: returned == memory == database', 'thorough')
K('C07', 'P2.add_update_grow', 'teos', _w + 'c07_add_update_grow', 'replacing a 1-slot appointment by a 4097-byte one charges exactly the difference (2)', 'thorough')

K('C11', 'K1.late_already_in_chain', 'teos', _w + 'c11_late_already_in_chain', 'no orphan appointment row after a late appointment whose penalty is already in the chain (F15 regression); no panic')
K('C11', 'K1.handle_breach_panic_free', 'teos', _r + 'c01_p3_handle_breach_not_in_index', 'no unwrap/overflow/index panic in handle_breach for any node reply')
K('C11', 'K1.check_confirmations_panic_free', 'teos', _r + 'c04_p1_cc_absent_fresh_confirmed', 'no panic (incl. current_height - h) in check_confirmations under the stated invariant')
K('C11', 'K1.gatekeeper_panic_free', 'teos', _g + 'c07_k4_delete_refund_two', 'no panic in delete_appointments(refund) for rows that exist', 'thorough')
K('C01', 'P4.late_penalty_confirmed', 'teos', _w + 'c01_late_penalty_confirmed', 'late appointment whose penalty is already in the responder\'s recent-block index: ConfirmedIn(true height), nothing sent, appointment kept with its tracker')
K('C01', 'P2.handle_breaches_shared_locator', 'teos', _w + 'c01_p2_handle_breaches_shared_locator', 'block path, one breached locator shared by two users (one good blob, one garbled): each blob decrypted on its own, the good one answered with its own penalty and owner, only the garbled one reported invalid')
K('C06', 'P4.isolation_shared_locator', 'teos', _w + 'c01_p2_handle_breaches_shared_locator', 'users sharing a locator hold independent appointments when the breach arrives: own blob, own tracker, own fate')
PROPS['C01']['outside'] = PROPS['C01']['outside'].replace('the block-connection path Watcher::filtered_block_connected -> get_breaches -> handle_breaches is not run under Kani (its loop over breaches runs out of memory): only its lock/call order is checked (C10.M1, C11.M1) and its per-breach step is the same handle_breach',
    'of the block-connection path, Watcher::handle_breaches is run for one breached locator with two appointments; filtered_block_connected / get_breaches themselves (locator map construction, cache update, deletion of the invalid ones) are only covered through lock/call order (C10.M1, C11.M1)')
K('C06', 'P4.isolation_both_garbled', 'teos', _w + 'c06_handle_breaches_both_garbled', 'two users share a breached locator, both blobs garbled: two decryptions, each with that appointment\'s own blob; both reported invalid; nothing sent', 'thorough')

TWIN_WHAT = ('encoding validation (sampling, not a solver verdict): pseudo-random operation sequences (VERIF_SEED) run natively on the real sqlite DBM and on '
             'models/dbm_tower.rs; every observable result (rows, existence, lengths, owners, selections by status/locator, cascades, error/ok) must agree')
T('C08', 'T1.dbm_model_twin', TWIN_WHAT)
T('C04', 'T1.dbm_model_twin', TWIN_WHAT)
T('C09', 'T1.dbm_model_twin', TWIN_WHAT)
T('C01', 'T1.dbm_model_twin', TWIN_WHAT)
T('C06', 'T1.dbm_model_twin', TWIN_WHAT)
T('C07', 'T1.dbm_model_twin', TWIN_WHAT)

# retry path (Retrier::run) — Engine M
M('C05', 'M2.retry_bookkeeping', 'retrier_run', 'retry path: a pending appointment is removed only after its receipt (accepted) or its invalid copy (rejected) was stored, exactly one of the two; whoever stores one also removes the pending record', part='bookkeeping')
M('C05', 'M2.retry_errors_keep_pending', 'retrier_run', 'retry path: connection and subscription errors end the run with an error and never touch the pending record', part='errors_keep_pending')
M('C14', 'M1.reregister_verify', 'retrier_run', 'the retrier stores a renewed registration (add_update_tower) only on paths on which RegistrationReceipt::verify(&tower_id) returned true', part='reregister_verify')
PROPS['C05']['bounds'] = PROPS['C05']['bounds'] + '; Retrier::run: one arbitrary iteration over the pending locators, all paths between the reply and the next locator / return'
PROPS['C05']['outside'] = PROPS['C05']['outside'].replace('the retrier path (Retrier::run), ', '')

# read requests and register (Watcher level)
for _n, _t in (('ok', 'quick'), ('expired', 'quick'), ('unregistered', 'thorough'), ('bad_signature', 'thorough')):
    K('C06', 'P2.get_subscription_info.' + _n, 'teos', _w + 'c06_subinfo_' + _n, 'get_subscription_info (%s): authenticates exactly "get subscription info"; refused unless registered and height < expiry (error states the expiry); returns only the caller\'s record and locators; never writes' % _n, _t)
for _n, _t in (('tracker', 'quick'), ('appointment', 'thorough'), ('other_users_only', 'quick'), ('bad_signature', 'thorough')):
    K('C06', 'P2.get_appointment.' + _n, 'teos', _w + 'c06_getapp_' + _n, 'get_appointment (%s), message formatting stubbed: own tracker if responded, else own appointment, else NotFound; another user\'s appointment for the same locator is never revealed; never writes' % _n, _t)
K('C01', 'P6.reported_as_responded', 'teos', _w + 'c06_getapp_tracker', 'a responded appointment is reported (get_appointment) as its tracker with exactly that dispute and penalty', 'thorough')
K('C08', 'P1.register_signed', 'teos', _w + 'c08_register_signed', 'Watcher::register: the tower signs exactly user_id || slots || start || expiry of the receipt whose values are the persisted ones')
K('C08', 'P4.readback', 'teos', _w + 'c06_getapp_appointment', 'reading an accepted appointment back returns the caller\'s stored version (blob length / leading bytes / delay on the model)', 'thorough')
PROPS['C06']['outside'] = PROPS['C06']['outside'].replace('; get_appointment / get_subscription_info handlers (their format!-built messages need real formatting under Kani: not run) are covered only through authenticate_user and has_subscription_expired, which they share', '; the text of the get_appointment message ("get appointment <locator>", built with format!, stubbed under Kani)')
M('C04', 'P5.block_order', 'responder_block_order', 'Responder::filtered_block_connected (call level): refunding deletion only after check_confirmations, non-refunding deletion only after reorg handling / rebroadcast; exactly these two deletion sites; carrier height and tx index updated first, receipts cleared last')
K('C01', 'P1.block_connected_breach', 'teos', _w + 'c01_p1_block_connected_breach', 'Watcher::filtered_block_connected for a block with the dispute of a stored appointment (+ an unrelated tx, + an untriggered appointment): cache learns the block, penalty submitted while the block is handled, tracker with exactly that dispute/penalty, height recorded')
K('C01', 'P1.block_connected_already_in_chain', 'teos', _w + 'c01_p1_block_connected_already_in_chain', 'same block, the node answers the penalty with already-in-chain (-27): submitted once, no tracker, and the appointment is dropped (never left as watched), no refund')
K('C01', 'P1.block_connected_rejected', 'teos', _w + 'c01_p1_block_connected_rejected', 'same block, the node rejects the penalty (-26): submitted once, no tracker, appointment dropped, no refund', 'thorough')
K('C01', 'P1.block_connected_garbled', 'teos', _w + 'c01_p1_block_connected_garbled', 'same with a blob that does not decrypt: nothing sent, only that appointment dropped, no refund', 'thorough')
PROPS['C04']['assumptions'] = PROPS['C04']['assumptions'] + M_ASSUME[:2]
PROPS['C01']['outside'] = 'the six-block window is C19; real decryption (ideal-cipher stub); multi-breach blocks beyond one locator with two appointments; SQL; get_breaches with more than 2 transactions per block'

M('C10', 'M2.double_charge', 'double_charge', 'no interleaving of two add_appointment requests for the same appointment lets both read "not stored yet" (get_appointment_length) before either has stored it: charged once (charge and store are one critical section under the locator cache lock)')
K('C11', 'K1.reorged_tracker_purged', 'teos', _r + 'c11_reorged_tracker_purged', 'handle_reorged_txs with a reorged uuid whose tracker row is gone (owner purged earlier in the same block): skipped without panic, nothing sent or reported (F13 regression)')
K('C04', 'P3.reorged_tracker_purged', 'teos', _r + 'c11_reorged_tracker_purged', 'reorg handling survives trackers deleted by a purge', 'thorough')

# ----------------------------------------------------------------------------------------------- C13 (Engine M, partial)
PROPS['C13'] = {
    'level': 'model_checking',
    'technique': 'Engine M path queries on the MIR of Retrier::run, RetryManager::manage_retry and Retrier::start (watchtower_plugin library), decided by z3/cvc5',
    'bounds': 'all CFG paths of the three lowered functions, loops unrolled twice; one arbitrary pending locator per run',
    'outside': 'everything about *time*: delivery within the configured delays, the exponential back-off schedule itself (backoff crate), auto-retry delay, tokio task scheduling, client restarts; '
               'manual retry (retrytower) gating; status truthfulness in listtowers. Only the three structural clauses below are claimed.',
    'assumptions': PLUGIN_ASSUME,
    'models': [],
    'obligations': [],
}
M('C13', 'M1.no_spin', 'retry_progress', 'inside Retrier::run every answered appointment either leaves the in-memory pending set or ends the run (so that the back-off strategy decides when to try again): no immediate re-send without progress', part='no_spin')
M('C13', 'M2.single_loop', 'retry_progress', 'manage_retry starts a retrier only on the true edge of should_start(); Retrier::start marks it Running before spawning the task: never two retry loops for one tower', part='single_loop')
M('C13', 'M3.errors_keep_pending', 'retrier_run', 'while a tower keeps failing (connection / subscription / unusable reply) the run ends with an error and the pending data is retained', part='errors_keep_pending')
M('C06', 'M1.per_appointment_decrypt', 'per_appointment_decrypt', 'Watcher::handle_breaches (structural): every iteration of the per-appointment loop loads that appointment and decrypts its own blob exactly once before the breach is handed on or reported invalid (users sharing a locator are judged by their own data)')
M('C01', 'M1.per_appointment_decrypt', 'per_appointment_decrypt', 'every appointment under a breached locator is decrypted with the dispute id in its own loop iteration', 'thorough')
PROPS['C06']['assumptions'] = PROPS['C06']['assumptions'] + M_ASSUME[:2]
M('C14', 'M3.startup_no_retry_of_misbehaving', 'plugin_startup_retry', 'at client start-up a tower is handed to the retry manager only on the true edge of is_temporary_unreachable(): a tower with a stored misbehaviour proof is never queued again, whatever pending data it still has')
M('C13', 'M4.startup_retry_gate', 'plugin_startup_retry', 'after a restart exactly the towers that are temporarily unreachable (pending data, no proof) are queued for retrying', 'thorough')
# the TxIndex heights feed ConfirmedIn(h): C04 inherits the C19 steps that involve a disconnection
K('C04', 'K2.index_height_after_reorg', 'teos', 'tx_index::verif_harness::c19_step_n2_d1_connect', 'after a disconnection and a replacement block the recent-block index reports true heights (what handle_breach records as ConfirmedIn)')
K('C04', 'K2.index_height_after_disconnect', 'teos', 'tx_index::verif_harness::c19_step_n2_d0_disconnect', 'after a disconnection the remaining blocks keep their true heights', 'thorough')

K('C02', 'P3.rebroadcast_sends_penalty', 'teos', _r + 'c04_p4_rebroadcast_stale_boundary_rejected', 'what is re-submitted for a stale tracker is its penalty transaction (and only that)')
M('C01', 'M2.no_missed_breach', 'missed_breach', 'an appointment accepted while the block containing its dispute is being processed is never left unwatched: the cache look-up and the store are one critical section, and the block\'s cache update precedes its database look-up')
PROPS['C01']['assumptions'] = PROPS['C01']['assumptions'] + M_ASSUME[:3]
K('C07', 'P2.already_triggered_no_charge', 'teos', _w + 'c06_add_already_triggered', 'a submission that bounces because the appointment was already responded to changes no balance (memory, database) and writes nothing')
K('C01', 'P7.already_triggered', 'teos', _w + 'c06_add_already_triggered', 'an appointment that was already responded to cannot be replaced (AlreadyTriggered), nothing is written or sent', 'thorough')
K('C06', 'P2.already_triggered', 'teos', _w + 'c06_add_already_triggered', 'refused request (already triggered) changes nothing', 'thorough')
M('C10', 'M3.slot_update_atomic', 'slot_update_atomic', 'for every pair of Gatekeeper operations that change a user record (add_update_user, add_update_appointment, delete_appointments with refund) the in-memory write and the persisted write are one critical section under the users lock: no interleaving orders the two memory writes one way and the two database writes the other way, and no update lands between the read of a record and its persisted write')
M('C05', 'M3.wtclient_frames', 'wtclient_frames', 'each WTClient bookkeeping method calls exactly its own client-database method (receipt / pending / delete-pending / invalid / proof / remove / register): recording one outcome cannot delete another record')
M('C05', 'M5.repeated_notification', 'insert_conflict', 'one step of add_pending_appointment / add_invalid_appointment / add_appointment_receipt from every pre-state that satisfies the mirror invariant (row present or not, key in the in-memory set or not): no path unwraps a primary-key conflict of the client database (a repeated notification or a retry racing a notification must not panic with the client state locked and lose every later appointment)', recorders=['add_pending_appointment', 'add_invalid_appointment', 'add_appointment_receipt'])
M('C14', 'M4.flag_conflict', 'insert_conflict', 'one step of flag_misbehaving_tower from every pre-state (receipt for the locator stored or not, tower already flagged or not): storing the proof never unwraps a primary-key conflict (a misbehaving reply to a repeated notification, or two misbehaving replies in flight, must not crash the client)', recorders=['flag_misbehaving_tower'])
M('C11', 'M2.purge_race', 'purge_race', 'no interleaving of an API handler (add_appointment / get_appointment / get_subscription_info) with the block that purges its user lets the handler unwrap a failed look-up of the user it authenticated in an earlier critical section (handler abort)')
M('C13', 'M5.data_not_dropped', 'retry_data_kept', 'RetryManager::manage_retry: a received (tower, data) message is either for an abandoned tower, handed to add_pending_appointments, or met by an idle retrier (which keeps nothing in memory and reloads all pending appointments from the database when woken): data for a stopped or running retrier is never dropped')
M('C11', 'M3.purge_vs_store', 'purge_vs_store', 'no interleaving orders the purge of a user (memory, then rows) between the charge and the store of add_appointment such that the store result is unwrapped (foreign-key failure with the dbm and cache locks held); known finding F22')
K('C11', 'K3.in_mempool_retry_waits', 'teos', _ca + 'c12_k1_in_mempool_through_outage', 'a node query interrupted by a transport error lowers the reachable flag before it is re-issued, so the retry parks on the condvar instead of recursing without bound (stack overflow aborts the process with carrier / index locks held)')
K('C11', 'K3.send_retry_waits', 'teos', _ca + 'c12_k1_send_through_outage', 'a submission interrupted by a transport error lowers the reachable flag before it is re-issued (bounded retry, no unbounded recursion)')
M('C05', 'M6.mirror_reload', 'mirror_reload', 'start-up re-establishes the mirror invariant M5 assumes: DBM::load_towers fills the in-memory pending / invalid set of each tower from the table the corresponding recorder inserts into (status constant -> table constant -> with_appointments argument -> TowerSummary field, read from the MIR)')
M('C13', 'M6.retrier_end_state', 'retrier_end_state', 'after the back-off strategy gave up, every feasible path of the task spawned by Retrier::start (symbolic RetryError variant and permanent flag, tied to is_permanent\'s own MIR) leaves the retrier Failed or Idle, never Running: it can idle, be restarted automatically or retried manually, and the reported status is truthful')
M('C02', 'M1.per_appointment_decrypt', 'per_appointment_decrypt', 'Watcher::handle_breaches: every appointment under a breached locator is decrypted from its own blob in its own loop iteration before anything is handed to the Responder (no penalty is broadcast for an appointment whose own blob does not yield it)')
M('C13', 'M7.start_status', 'retrier_start_status', 'Retrier::start flags the tower TemporaryUnreachable on every path on which its status is not a subscription error, and marks the retrier Running, before the task is spawned: while a round runs the tower is never shown Unreachable (new appointments keep reaching the retrier) and the reported status is truthful')
M('C14', 'M5.registration_extends', 'registration_extends', 'symbolic execution of WTClient::add_update_tower (32-bit bit-vectors for the receipt\'s and the known expiry / slots, booleans for every other test): a registration for a tower that is already known is stored only if its expiry AND its slots strictly exceed the known ones, whatever the tower\'s status')
K('C19', 'K3.responder_index_follows_disconnect', 'teos', 'responder::verif_harness::c04_p2_disconnect_confirmed_elsewhere', 'Responder::block_disconnected removes the disconnected block from the Responder\'s index whether or not a tracker was confirmed in it (no tracker confirmed at that height in this shape): the index stays equal to the last N blocks of the active chain')
M('C02', 'M2.block_order', 'responder_block_order', 'every completed path of Responder::filtered_block_connected clears the carrier\'s receipts (what was sent is remembered for one block only: a stale receipt would let a later breach be reported as responded without the node being given the penalty) and keeps the order of the steps')
M('C12', 'M4.monitor_polls_always', 'monitor_polls_always', 'every iteration of ChainMonitor::monitor_chain polls the node (poll_best_tip) before it sleeps again, on every path and whatever the reachable flag says: the only code that raises the flag and wakes the Carrier keeps running during and after an outage')
K('C02', 'K3.responder_index_follows_disconnect', 'teos', 'responder::verif_harness::c04_p2_disconnect_confirmed_elsewhere', 'Responder::block_disconnected removes the disconnected block from the Responder\'s index whether or not a tracker was confirmed in it: a penalty that was only seen in a block that is gone is not reported as confirmed (tracker without the node having the penalty)')
M('C13', 'M8.retain_rule', 'retain_rule', 'the retry manager keeps a retrier only on the true edge of should_start(), is_running() or is_idle(), after remove_if_failed(): a failed or finished retrier is dropped, so that the next manual retry or revocation for its tower gets a fresh one')
M('C08', 'M1.single_height_read', 'single_height_read', 'Watcher::add_appointment reads the tower height once per accepted request: the start block in the receipt and the one stored with the appointment are the same number whatever block events interleave')
M('C06', 'M2.uuid_derivation', 'uuid_derivation', 'UUID::new hashes locator || full serialised user key (PublicKey::serialize): distinct users never share a uuid for the same locator')
K('C11', 'K1.handle_reorged_panic_free', 'teos', _r + 'c04_p3_handle_reorged', 'handle_reorged_txs does not panic for any node reply to the dispute / penalty re-submission (incl. already-in-chain)')
PROPS['C08']['assumptions'] = PROPS['C08']['assumptions'] + M_ASSUME[:2]
PROPS['C12']['bounds'] = PROPS['C12']['bounds'] + '; while an RPC is in flight another thread may lower the reachable flag (modelled by the node model)'
