"""Obligations per property. Every obligation is decided by a solver run (see ./check)."""

COMMON_MODELS_TEOS = [
    'models/collections.rs: fixed-capacity (4) HashMap/HashSet replaces std::collections under cfg(kani); a 5th entry ends the path',
    'models/stubs_teos.rs: Header::block_hash / Transaction::compute_txid replaced by injective models (nonce / lock_time copied into the hash) = collision freeness of SHA-256d',
    'memory-safety (pointer) checks of CBMC are off: the code under test is safe Rust; overflow, bounds, unwrap/expect/panic and unwinding checks are on',
]

PROPS = {}


def K(pid, oid, crate, harness, what, tier='quick', timeout=None):
    o = {'id': oid, 'engine': 'kani', 'crate': crate, 'harness': harness, 'what': what, 'tier': tier}
    if timeout:
        o['timeout'] = timeout
    PROPS[pid]['obligations'].append(o)


def M(pid, oid, query, what, tier='quick', **kw):
    o = {'id': oid, 'engine': 'mir', 'query': query, 'what': what, 'tier': tier}
    o.update(kw)
    PROPS[pid]['obligations'].append(o)


# ----------------------------------------------------------------------------------------------- C19
PROPS['C19'] = {
    'level': 'model_checking',
    'technique': 'bounded symbolic model checking of the real TxIndex source with Kani/CBMC (cadical): one '
                 'inductive step per index shape, block contents and heights symbolic',
    'bounds': 'TxIndex<K8,V8> (1-byte key/value instantiation of the generic source), index size N in {1,2} quick / '
              '{1,2,3} thorough, D in 0..N disconnections before the step, key universe 2 (N<=2) or 3 (N=3), '
              'bootstrap height any u32 in [N-1, u32::MAX-5], unwind 7, memcmp unwind 66',
    'outside': 'production sizes 6/100 (the code is size-parametric; not re-proved), reorgs deeper than the index, '
               'std HashMap itself (replaced by a finite-map model), TxIndex::new\'s PoW-validated block input '
               '(the bootstrap loop body = update() is what is driven)',
    'assumptions': ['a transaction id occurs at most once among the blocks of the active window (BIP30/34)',
                    'blocks are disconnected tip-first (lightning-block-sync contract)'] + COMMON_MODELS_TEOS,
    'models': COMMON_MODELS_TEOS,
    'harness_timeout': {'quick': 900, 'thorough': 1500},
    'obligations': [],
}
_p = 'tx_index::verif_harness::'
for n, dmax, tier in ((1, 1, 'quick'), (2, 2, 'quick'), (3, 3, 'thorough')):
    for d in range(0, dmax + 1):
        K('C19', 'K1.step.n%d.d%d.connect' % (n, d), 'teos', _p + 'c19_step_n%d_d%d_connect' % (n, d),
          'N=%d, after %d disconnections, connect any block: look-ups = last N active blocks, true heights, gone blocks unknown' % (n, d), tier)
        if d < n:
            K('C19', 'K1.step.n%d.d%d.disconnect' % (n, d), 'teos', _p + 'c19_step_n%d_d%d_disconnect' % (n, d),
              'N=%d, after %d disconnections, disconnect the tip: same post-condition' % (n, d), tier)
K('C19', 'K1.refill.n2', 'teos', _p + 'c19_reorg_refill_n2',
  'N=2: disconnect, then two connections (second evicts): look-ups and heights', 'thorough', timeout=2400)
K('C19', 'K3.production_keys', 'teos', _p + 'c19_production_keys',
  'Locator key = first 16 bytes of the txid for all 32-byte ids; Txid key = identity')
