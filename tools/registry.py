"""Obligations per property. Every obligation is decided by a solver run (see ./check)."""

COMMON_MODELS_TEOS = [
    'models/collections.rs: fixed-capacity (4) HashMap/HashSet replaces std::collections under cfg(kani); a 5th entry ends the path',
    'models/stubs_teos.rs: Header::block_hash / Transaction::compute_txid replaced by injective models (nonce / lock_time copied into the hash) = collision freeness of SHA-256d',
    'memory-safety (pointer) checks of CBMC are off: the code under test is safe Rust; overflow, bounds, unwrap/expect/panic and unwinding checks are on',
]

PROPS = {}


def K(pid, oid, crate, harness, what, tier='quick', timeout=None):
    o = {'id': oid, 'engine': 'kani', 'crate': crate, 'harness': harness, 'what': what, 'tier': tier}
    if timeout:
        o['timeout'] = timeout
    PROPS[pid]['obligations'].append(o)


def M(pid, oid, query, what, tier='quick', **kw):
    o = {'id': oid, 'engine': 'mir', 'query': query, 'what': what, 'tier': tier}
    o.update(kw)
    PROPS[pid]['obligations'].append(o)


# ----------------------------------------------------------------------------------------------- C19
PROPS['C19'] = {
    'level': 'model_checking',
    'technique': 'bounded symbolic model checking of the real TxIndex source with Kani/CBMC (cadical): one '
                 'inductive step per index shape, block contents and heights symbolic',
    'bounds': 'TxIndex<K8,V8> (1-byte key/value instantiation of the generic source), index size N in {1,2} quick / '
              '{1,2,3} thorough, D in 0..N disconnections before the step, key universe 2 (N<=2) or 3 (N=3), '
              'bootstrap height any u32 in [N-1, u32::MAX-5], unwind 7, memcmp unwind 66',
    'outside': 'production sizes 6/100 (the code is size-parametric; not re-proved), reorgs deeper than the index, '
               'std HashMap itself (replaced by a finite-map model), TxIndex::new\'s PoW-validated block input '
               '(the bootstrap loop body = update() is what is driven)',
    'assumptions': ['a transaction id occurs at most once among the blocks of the active window (BIP30/34)',
                    'blocks are disconnected tip-first (lightning-block-sync contract)'] + COMMON_MODELS_TEOS,
    'models': COMMON_MODELS_TEOS,
    'harness_timeout': {'quick': 900, 'thorough': 1500},
    'obligations': [],
}
_p = 'tx_index::verif_harness::'
for n, dmax, tier in ((1, 1, 'quick'), (2, 2, 'quick'), (3, 3, 'thorough')):
    for d in range(0, dmax + 1):
        K('C19', 'K1.step.n%d.d%d.connect' % (n, d), 'teos', _p + 'c19_step_n%d_d%d_connect' % (n, d),
          'N=%d, after %d disconnections, connect any block: look-ups = last N active blocks, true heights, gone blocks unknown' % (n, d), tier)
        if d < n:
            K('C19', 'K1.step.n%d.d%d.disconnect' % (n, d), 'teos', _p + 'c19_step_n%d_d%d_disconnect' % (n, d),
              'N=%d, after %d disconnections, disconnect the tip: same post-condition' % (n, d), tier)
K('C19', 'K1.refill.n2', 'teos', _p + 'c19_reorg_refill_n2',
  'N=2: disconnect, then two connections (second evicts): look-ups and heights', 'thorough', timeout=2400)
K('C19', 'K3.production_keys', 'teos', _p + 'c19_production_keys',
  'Locator key = first 16 bytes of the txid for all 32-byte ids; Txid key = identity')

# ----------------------------------------------------------------------------------------------- C09
DBM_MODEL = ('models/dbm_tower.rs: relational model of teos::dbm::DBM (tables with PK uniqueness, FK checks, ON DELETE CASCADE, '
             'the <=/= rule of load_trackers_with_confirmation_status); replaces rusqlite under cfg(kani); SQL text itself is outside the encoding')
GK_ASSUME = ['pre-states: arbitrary UserInfo records / configuration / heights constrained only by "memory copy == database copy of every user"',
             'users passed to gatekeeper calls are registered where the code documents it ("inputs are always sanitized")',
             DBM_MODEL] + COMMON_MODELS_TEOS
_g = 'gatekeeper::verif_harness::'
PROPS['C09'] = {
    'level': 'model_checking',
    'technique': 'bounded symbolic model checking of the real Gatekeeper source with Kani/CBMC: one operation from an arbitrary '
                 'pre-state, heights and the three configuration values over the full u32 range',
    'bounds': '<=2 registered users (+1 unregistered key), <=2 appointments and 1 tracker in the database model, all heights / expiry / '
              'duration / grace / slot values full u32 (including 0, 1, u32::MAX), unwind 6, memcmp unwind 66',
    'outside': 'several blocks per poll and reorg sequences are covered through the one-step formulation (any height in, any state in) only; '
               'the SQL of batch_remove_users and its ON DELETE CASCADE (model); the propagation of SubscriptionExpired(expiry) through '
               'Watcher/InternalAPI is decided by Engine M (C06/C09 M obligations) when present',
    'assumptions': GK_ASSUME + ['genesis is never disconnected (height >= 1 on block_disconnected)'],
    'models': [DBM_MODEL] + COMMON_MODELS_TEOS,
    'harness_timeout': {'quick': 900, 'thorough': 1800},
    'obligations': [],
}
K('C09', 'K1.expired_iff', 'teos', _g + 'c09_k1_expired_iff', 'has_subscription_expired <=> height >= expiry; reports the stored expiry; read-only')
K('C09', 'K2.outdated_iff', 'teos', _g + 'c09_k2_outdated_iff', 'get_outdated_users(h) = {u : h >= expiry_u + grace} computed in N (no u32 wrap)')
K('C09', 'K3.purge_exact', 'teos', _g + 'c09_k3_purge_exact', 'filtered_block_connected(h): exactly the outdated users leave memory and DB with their appointments/trackers; others bit-identical; height := h')
K('C09', 'K4.disconnect', 'teos', _g + 'c09_k4_disconnect_height', 'block_disconnected(h): height := h-1, users untouched, expiry check honours it')
K('C09', 'K5.register_new', 'teos', _g + 'c09_k5_register_new', 'new user: start = h, expiry = min(h+duration, u32::MAX), configured slots; memory == DB == receipt')
K('C09', 'K5.renew', 'teos', _g + 'c09_k5_renew', 'renewal: expiry += duration (saturating), slots += configured (checked); refused renewal changes nothing; memory == DB == receipt')

# ----------------------------------------------------------------------------------------------- C07
PROPS['C07'] = {
    'level': 'model_checking',
    'technique': 'bounded symbolic model checking with Kani/CBMC: bit-precise f32 slot formula for every blob length <= 2^24, and one '
                 'accounting operation of the real Gatekeeper from an arbitrary pre-state (conservation as an inductive step)',
    'bounds': 'slot formula: every length <= 2^24 (16 MiB, above the 4 MiB gRPC cap); gatekeeper steps: 2 users, blob lengths any value '
              '<= 18432 bytes (9 slots, symbolic), balances full u32, <=3 appointment rows, unwind 6',
    'outside': 'SQL UPDATE users (model); concurrency of the two copies (C10); that the Watcher stores the blob it was charged for is C08; '
               'restarts; lengths above 2^24 bytes',
    'assumptions': GK_ASSUME + ['representation invariant: available_slots + slots of the appointments being refunded fits u32 '
                                '(total granted fits the counter; see DESIGN F14 for why registrations do not enforce it)'],
    'models': [DBM_MODEL] + COMMON_MODELS_TEOS,
    'harness_timeout': {'quick': 900, 'thorough': 1800},
    'obligations': [],
}
K('C07', 'K2.charge_new', 'teos', _g + 'c07_k2_charge_new', 'add_update_appointment, new uuid: Ok(s) <=> slots(new) <= available; s = available - slots(new) = memory = DB; Err changes nothing')
K('C07', 'K2.charge_update', 'teos', _g + 'c07_k2_charge_update', 'add_update_appointment, replacement: charges/returns exactly slots(new) - slots(old)')
K('C07', 'K3.register_new', 'teos', _g + 'c09_k5_register_new', 'registration grants exactly the configured slots; memory == DB == receipt')
K('C07', 'K3.renew', 'teos', _g + 'c09_k5_renew', 'renewal adds exactly the configured slots with overflow check; refused renewal changes nothing')
K('C07', 'K4.refund_one', 'teos', _g + 'c07_k4_delete_refund_one', 'delete_appointments(refund): owner gets exactly slots(blob) back in memory and DB; rows gone; bystanders untouched')
K('C07', 'K4.refund_two', 'teos', _g + 'c07_k4_delete_refund_two', 'delete_appointments(refund) of two appointments with symbolic owners (same / different)')
K('C07', 'K4.norefund_one', 'teos', _g + 'c07_k4_delete_norefund_one', 'delete_appointments(no refund): no balance moves (single-row fast path)')
K('C07', 'K4.norefund_two', 'teos', _g + 'c07_k4_delete_norefund_two', 'delete_appointments(no refund): no balance moves (batch path)')
