//! Model of the two bitcoind RPCs the Carrier uses (compiled instead of `bitcoincore_rpc::{Client, RpcApi, Error}` under
//! cfg(kani); teos/src/carrier.rs imports these under the aliases it uses for the real types).
//!
//! Contract: every call returns *any* outcome the real client can produce, as far as the Carrier can tell them apart:
//! `Ok`, `Err(JsonRpc(Rpc{code: any i32}))`, `Err(JsonRpc(Transport))`, `Err(JsonRpc(other))`, other `Err`.
//! The error enums are light, shape-compatible copies (the real ones carry `Box<dyn Error>`, `io::Error`,
//! `serde_json::Error`, whose drop glue makes CBMC explode once the discriminant is symbolic).
//! Transport errors are only produced while `TRANSPORT_BUDGET > 0` (the harness bounds the length of an outage).
//! Every call is logged in typed statics that the harness inspects.
use bitcoin::{Transaction, Txid};

pub const MAX_LOG: usize = 8;

#[derive(Clone, Copy, PartialEq, Eq, Debug)]
pub enum Outcome {
    Ok,
    OkConfirmed, // get_raw_transaction_info only: Ok with a block hash
    Rpc(i32),
    JsonOther,
    Other,
}

pub static mut SENT: [Option<Txid>; MAX_LOG] = [None; MAX_LOG];
pub static mut N_SENT: usize = 0;
pub static mut QUERIED: [Option<Txid>; MAX_LOG] = [None; MAX_LOG];
pub static mut N_QUERIED: usize = 0;
/// Number of transport errors the model may still produce.
pub static mut TRANSPORT_BUDGET: u8 = 0;
/// Number of transport errors produced so far.
pub static mut N_TRANSPORT: u8 = 0;
/// Outcome of the last call that was not a transport error.
pub static mut LAST_OUTCOME: Option<Outcome> = None;
/// Outcome of the i-th `send_raw_transaction` call (None = transport error).
pub static mut SEND_OUTCOMES: [Option<Outcome>; MAX_LOG] = [None; MAX_LOG];
/// Optional script: when `Some`, the next non-transport outcome is this one (and the script is consumed).
pub static mut SCRIPT: Option<Outcome> = None;
/// Same for `get_raw_transaction_info` (not consumed: every query gets this reply while set).
pub static mut QUERY_SCRIPT: Option<Outcome> = None;

#[derive(Debug)]
pub struct Client {
    _handle: u8,
}
impl Client {
    pub fn model() -> Self {
        Client { _handle: 0 }
    }
}

#[derive(Debug)]
pub struct RpcErr {
    pub code: i32,
}
#[derive(Debug)]
pub enum JError {
    Rpc(RpcErr),
    Transport(()),
    Other,
}
#[derive(Debug)]
pub enum Error {
    JsonRpc(JError),
    Other,
}
impl std::fmt::Display for Error {
    fn fmt(&self, f: &mut std::fmt::Formatter) -> std::fmt::Result {
        write!(f, "rpc error")
    }
}
pub struct RawInfo {
    pub blockhash: Option<bitcoin::BlockHash>,
}

pub trait RpcApi {
    fn send_raw_transaction(&self, tx: &Transaction) -> Result<Txid, Error>;
    fn get_raw_transaction_info(&self, txid: &Txid, bh: Option<&bitcoin::BlockHash>) -> Result<RawInfo, Error>;
}

/// The reachable flag of the tower (set by the harness): while an RPC is in flight another thread (the chain monitor's
/// failing poll) may lower it before the RPC itself fails. `None` = not modelled.
pub static mut FLAG: Option<*const (std::sync::Mutex<bool>, std::sync::Condvar)> = None;
/// Number of times the model lowered the flag "from another thread".
pub static mut N_FLAG_RACES: u8 = 0;

fn transport_now() -> bool {
    unsafe {
        if TRANSPORT_BUDGET > 0 && kani::any() {
            if let Some(p) = FLAG {
                if kani::any() {
                    // the chain monitor noticed the outage first
                    *(*p).0.lock().unwrap() = false;
                    N_FLAG_RACES += 1;
                }
            }
            TRANSPORT_BUDGET -= 1;
            N_TRANSPORT += 1;
            true
        } else {
            false
        }
    }
}

fn any_outcome(allow_confirmed: bool) -> Outcome {
    unsafe {
        if let Some(o) = SCRIPT.take() {
            return o;
        }
    }
    match kani::any::<u8>() % 5 {
        0 => Outcome::Ok,
        1 => {
            if allow_confirmed {
                Outcome::OkConfirmed
            } else {
                Outcome::Ok
            }
        }
        2 => Outcome::Rpc(kani::any()),
        3 => Outcome::JsonOther,
        _ => Outcome::Other,
    }
}

fn to_err(o: Outcome) -> Error {
    match o {
        Outcome::Rpc(code) => Error::JsonRpc(JError::Rpc(RpcErr { code })),
        Outcome::JsonOther => Error::JsonRpc(JError::Other),
        _ => Error::Other,
    }
}

impl RpcApi for Client {
    fn send_raw_transaction(&self, tx: &Transaction) -> Result<Txid, Error> {
        unsafe {
            kani::assume(N_SENT < MAX_LOG);
            SENT[N_SENT] = Some(tx.compute_txid());
            N_SENT += 1;
        }
        if transport_now() {
            return Err(Error::JsonRpc(JError::Transport(())));
        }
        let o = any_outcome(false);
        unsafe {
            LAST_OUTCOME = Some(o);
            SEND_OUTCOMES[N_SENT - 1] = Some(o);
        }
        match o {
            Outcome::Ok | Outcome::OkConfirmed => Ok(tx.compute_txid()),
            e => Err(to_err(e)),
        }
    }
    fn get_raw_transaction_info(&self, txid: &Txid, _bh: Option<&bitcoin::BlockHash>) -> Result<RawInfo, Error> {
        use bitcoin::hashes::Hash;
        unsafe {
            kani::assume(N_QUERIED < MAX_LOG);
            QUERIED[N_QUERIED] = Some(*txid);
            N_QUERIED += 1;
        }
        if transport_now() {
            return Err(Error::JsonRpc(JError::Transport(())));
        }
        let o = match unsafe { QUERY_SCRIPT } {
            Some(o) => o,
            None => any_outcome(true),
        };
        unsafe { LAST_OUTCOME = Some(o) };
        match o {
            Outcome::Ok => Ok(RawInfo { blockhash: None }),
            Outcome::OkConfirmed => Ok(RawInfo { blockhash: Some(bitcoin::BlockHash::all_zeros()) }),
            e => Err(to_err(e)),
        }
    }
}
