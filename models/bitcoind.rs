//! Model of the two bitcoind RPCs the Carrier uses, including *shape-compatible* error types.
use bitcoin::{Transaction, Txid};

pub const MAX_LOG: usize = 8;
#[derive(Debug)]
pub struct Client {
    pub sent: std::cell::RefCell<([Option<Txid>; MAX_LOG], usize)>,
}
unsafe impl Sync for Client {}
impl Client {
    pub fn model() -> Self {
        Client { sent: std::cell::RefCell::new(([None; MAX_LOG], 0)) }
    }
}

#[derive(Debug)]
pub struct RpcErr { pub code: i32 }
#[derive(Debug)]
pub enum JError { Rpc(RpcErr), Transport(()), Other }
#[derive(Debug)]
pub enum Error { JsonRpc(JError), Other }
impl std::fmt::Display for Error {
    fn fmt(&self, f: &mut std::fmt::Formatter) -> std::fmt::Result { write!(f, "rpc error") }
}
pub struct RawInfo { pub blockhash: Option<bitcoin::BlockHash> }

pub trait RpcApi {
    fn send_raw_transaction(&self, tx: &Transaction) -> Result<Txid, Error>;
    fn get_raw_transaction_info(&self, txid: &Txid, bh: Option<&bitcoin::BlockHash>) -> Result<RawInfo, Error>;
}

fn any_error() -> Error {
    match kani::any::<u8>() % 3 {
        0 => Error::JsonRpc(JError::Rpc(RpcErr { code: kani::any() })),
        1 => Error::JsonRpc(JError::Other),
        _ => Error::Other,
    }
}

impl RpcApi for Client {
    fn send_raw_transaction(&self, tx: &Transaction) -> Result<Txid, Error> {
        let mut s = self.sent.borrow_mut();
        let n = s.1;
        kani::assume(n < MAX_LOG);
        s.0[n] = Some(tx.compute_txid());
        s.1 = n + 1;
        if kani::any() { Ok(tx.compute_txid()) } else { Err(any_error()) }
    }
    fn get_raw_transaction_info(&self, _txid: &Txid, _bh: Option<&bitcoin::BlockHash>) -> Result<RawInfo, Error> {
        use bitcoin::hashes::Hash;
        if kani::any() {
            Ok(RawInfo { blockhash: if kani::any() { Some(bitcoin::BlockHash::all_zeros()) } else { None } })
        } else {
            Err(any_error())
        }
    }
}
