//! Stubs shared by the teos harnesses (hash functions that Kani cannot execute: x86 SHA intrinsics).
//! Contract: injective on the harness universe (= collision freeness of SHA-256d / RIPEMD160).
#[cfg(not(kani))]
#[allow(unused_imports)]
use crate::verif_kani_shim as kani;
use bitcoin::block::{Header, Version};
use bitcoin::hashes::Hash;
use bitcoin::{BlockHash, CompactTarget, Transaction, TxMerkleNode, Txid};

/// `Header::block_hash` model: the nonce is copied into the hash.
pub fn block_hash_model(h: &Header) -> BlockHash {
    let mut b = [0u8; 32];
    b[..4].copy_from_slice(&h.nonce.to_le_bytes());
    BlockHash::from_byte_array(b)
}

/// `Transaction::compute_txid` model: the lock time is copied into the id.
pub fn txid_model(t: &Transaction) -> Txid {
    let mut b = [0u8; 32];
    b[..4].copy_from_slice(&t.lock_time.to_consensus_u32().to_le_bytes());
    Txid::from_byte_array(b)
}

pub fn hdr(n: u32) -> Header {
    Header {
        version: Version::from_consensus(1),
        prev_blockhash: BlockHash::all_zeros(),
        merkle_root: TxMerkleNode::all_zeros(),
        time: 0,
        bits: CompactTarget::from_consensus(0),
        nonce: n,
    }
}

pub fn tx(n: u32) -> Transaction {
    Transaction {
        version: bitcoin::transaction::Version::TWO,
        lock_time: bitcoin::absolute::LockTime::from_consensus(n),
        input: Vec::new(),
        output: Vec::new(),
    }
}

/// `alloc::fmt::format` stub (formatting is not the subject).
pub fn format_model(_a: std::fmt::Arguments<'_>) -> String {
    String::new()
}

// ---------------------------------------------------------------------------------------------------
// Harness utilities (universe of users / uuids / appointments / trackers)
use crate::extended_appointment::{ExtendedAppointment, UUID};
use crate::responder::{ConfirmationStatus, TransactionTracker};
use bitcoin::secp256k1::PublicKey;
use teos_common::appointment::{Appointment, Locator};
use teos_common::UserId;

/// Largest blob length the unit harnesses range over (9 slots); the slot formula itself is decided for all lengths
/// up to 2^24 in teos-common.
pub const MAX_BLOB: usize = 16384 + 2048;

/// User `i` (pure-Rust `PublicKey` of secp256k1's `secp256k1_fuzz` cfg: 64 raw bytes, byte-wise Eq/Hash).
pub fn user(i: u8) -> UserId {
    let mut b = [0u8; 64];
    b[0] = i;
    UserId(PublicKey::from(unsafe { bitcoin::secp256k1::ffi::PublicKey::from_array_unchecked(b) }))
}

pub fn locator(i: u8) -> Locator {
    let mut b = [0u8; 16];
    b[0] = i;
    Locator::from_slice(&b).unwrap()
}

pub fn uuid(i: u8) -> UUID {
    let mut b = [0u8; 20];
    b[0] = i;
    UUID::from_slice(&b).unwrap()
}

/// `UUID::new` model (RIPEMD160(locator || user)): injective on the harness universe.
pub fn uuid_model(l: Locator, u: UserId) -> UUID {
    let mut b = [0u8; 20];
    b[0] = l.to_vec()[0];
    b[1] = uid(&u);
    b[2] = 0xaa;
    UUID::from_slice(&b).unwrap()
}

/// A blob whose *length* is symbolic (<= MAX_BLOB) and whose contents are never read by the code under test.
pub fn blob_of_len(len: usize) -> Vec<u8> {
    kani::assume(len <= MAX_BLOB);
    let mut v: Vec<u8> = Vec::with_capacity(MAX_BLOB);
    unsafe { v.set_len(len) };
    v
}

pub fn ext_appointment(loc: u8, owner: UserId, blob_len: usize) -> ExtendedAppointment {
    ExtendedAppointment::new(
        Appointment::new(locator(loc), blob_of_len(blob_len), 42),
        owner,
        String::new(),
        7,
    )
}

pub fn tracker(i: u8, owner: UserId, status: ConfirmationStatus) -> TransactionTracker {
    TransactionTracker { dispute_tx: tx(100 + i as u32), penalty_tx: tx(200 + i as u32), status, user_id: owner }
}

/// Result of the last `recover_pk` stub call: Some(k) = recovered the key of `user(k)`, None = recovery failed.
pub static mut RECOVERED: Option<u8> = None;

/// `cryptography::recover_pk` stub: *any* outcome (failure, or any of the keys user(0..=2); user(2) is never registered).
pub fn recover_pk_any(_msg: &[u8], _sig: &str) -> Result<PublicKey, bitcoin::secp256k1::Error> {
    if kani::any() {
        let k: u8 = kani::any();
        kani::assume(k <= 2);
        unsafe { RECOVERED = Some(k) };
        Ok(user(k).0)
    } else {
        unsafe { RECOVERED = None };
        Err(bitcoin::secp256k1::Error::InvalidSignature)
    }
}

/// Cheap identity of a harness user: the first raw byte of the (fuzz-cfg) public key. `user(i)` are pairwise distinct in
/// that byte, so this decides equality on the harness universe without a 64-byte comparison.
pub fn uid(u: &UserId) -> u8 {
    unsafe { *(bitcoin::secp256k1::ffi::CPtr::as_c_ptr(&u.0) as *const u8) }
}

/// User signature strings of the harness universe are identified by their first byte (0 = empty string).
pub fn sig_of(m: u8) -> String {
    if m == 0 {
        String::new()
    } else {
        let mut s = String::with_capacity(1);
        s.push((m & 0x7f) as char);
        s
    }
}

// ---- universe-identity equality stubs (sound on the harness universe only: every Txid comes from `txid_model`,
// every BlockHash from `block_hash_model`, every UUID from `uuid(i)` / `uuid_model`, every UserId from `user(i)`,
// every Locator from `locator(i)`: the compared prefix determines the value, the remaining bytes are zero).
pub fn txid_eq_fast(a: &Txid, b: &Txid) -> bool {
    let (x, y): (&[u8; 32], &[u8; 32]) = (a.as_ref(), b.as_ref());
    x[0] == y[0] && x[1] == y[1] && x[2] == y[2] && x[3] == y[3]
}
pub fn blockhash_eq_fast(a: &BlockHash, b: &BlockHash) -> bool {
    let (x, y): (&[u8; 32], &[u8; 32]) = (a.as_ref(), b.as_ref());
    x[0] == y[0] && x[1] == y[1] && x[2] == y[2] && x[3] == y[3]
}
pub fn uuid_eq_fast(a: &UUID, b: &UUID) -> bool {
    let (x, y) = unsafe { (&*(a as *const UUID as *const [u8; 20]), &*(b as *const UUID as *const [u8; 20])) };
    x[0] == y[0] && x[1] == y[1] && x[2] == y[2]
}
pub fn userid_eq_fast(a: &UserId, b: &UserId) -> bool {
    uid(a) == uid(b)
}

/// First byte of a UUID (identity on the harness universe `uuid(i)`).
pub fn uuid_b0(u: &UUID) -> u8 {
    unsafe { *(u as *const UUID as *const u8) }
}

// ---------------------------------------------------------------------------------------------------
// Cryptography stubs (teos_common::cryptography::{recover_pk, sign, decrypt}); each records what it was called with.

/// What `recover_pk` returns next: Some(k) = the key of user(k), None = recovery error. Set by the harness.
pub static mut RECOVER_SCRIPT: Option<u8> = None;
pub static mut RECOVER_CALLS: u8 = 0;
/// Length and first two bytes of the message given to the last `recover_pk` call, first byte of the signature.
pub static mut RECOVER_MSG: (usize, u8, u8) = (0, 0, 0);
pub static mut RECOVER_SIG0: u8 = 0;

pub fn recover_pk_scripted(msg: &[u8], sig: &str) -> Result<PublicKey, bitcoin::secp256k1::Error> {
    unsafe {
        RECOVER_CALLS += 1;
        RECOVER_MSG = (msg.len(), if msg.len() > 0 { msg[0] } else { 0 }, if msg.len() > 16 { msg[16] } else { 0 });
        RECOVER_SIG0 = sig.as_bytes().first().copied().unwrap_or(0);
        match RECOVER_SCRIPT {
            Some(k) => Ok(user(k).0),
            None => Err(bitcoin::secp256k1::Error::InvalidSignature),
        }
    }
}

pub static mut SIGN_CALLS: u8 = 0;
/// Length, first byte and last four bytes of the message given to the last `sign` call.
pub static mut SIGN_MSG: (usize, u8, [u8; 4]) = (0, 0, [0; 4]);

pub fn sign_model(msg: &[u8], _sk: &bitcoin::secp256k1::SecretKey) -> String {
    unsafe {
        SIGN_CALLS += 1;
        let n = msg.len();
        let mut last = [0u8; 4];
        if n >= 4 {
            last = [msg[n - 4], msg[n - 3], msg[n - 2], msg[n - 1]];
        }
        SIGN_MSG = (n, if n > 0 { msg[0] } else { 0 }, last);
    }
    sig_of(b'T')
}

pub static mut DECRYPT_CALLS: u8 = 0;
/// (blob length, blob[0], blob[1], first byte of the txid) of the last `decrypt` call.
pub static mut DECRYPT_ARGS: (usize, u8, u8, u8) = (0, 0, 0, 0);

/// Ideal-cipher model on the harness universe: the blob `[1, d, ..]` decrypts, under the id of the dispute transaction
/// `tx(d)` and under no other id, to the penalty `tx(d + 100)`; everything else fails to decrypt. ("Decrypts only under
/// its dispute id" is therefore an assumption here; C17 is not claimed.)
pub fn decrypt_model(blob: &[u8], secret: &Txid) -> Result<Transaction, teos_common::cryptography::DecryptingError> {
    let id0 = AsRef::<[u8; 32]>::as_ref(secret)[0];
    let (b0, b1) = (if blob.len() > 0 { blob[0] } else { 0 }, if blob.len() > 1 { blob[1] } else { 0 });
    unsafe {
        DECRYPT_CALLS += 1;
        DECRYPT_ARGS = (blob.len(), b0, b1, id0);
    }
    if blob.len() >= 2 && b0 == 1 && b1 == id0 {
        Ok(tx(b1 as u32 + 100))
    } else {
        Err(teos_common::cryptography::DecryptingError::Encode(bitcoin::consensus::encode::Error::ParseFailed("model: does not decrypt")))
    }
}

/// An appointment for locator `loc` whose blob is `[b0, b1, 0...]` with `len >= 2`.
pub fn appointment_with_blob(loc: u8, len: usize, b0: u8, b1: u8, delay: u32) -> Appointment {
    let mut blob = blob_of_len(len);
    blob[0] = b0;
    blob[1] = b1;
    Appointment::new(locator(loc), blob, delay)
}

/// Locator of the transaction `tx(n)` under the txid model (first 16 bytes of the id).
pub fn locator_of_tx(n: u32) -> Locator {
    Locator::new(txid_model(&tx(n)))
}

/// `UserId::to_vec` model (33-byte compressed key; the real one calls libsecp256k1): 0x02 || first raw key byte || zeros.
pub fn userid_to_vec_model(u: &UserId) -> Vec<u8> {
    let mut v = vec![0u8; 33];
    v[0] = 2;
    v[1] = uid(u);
    v
}
