//! Stubs shared by the teos harnesses (hash functions that Kani cannot execute: x86 SHA intrinsics).
//! Contract: injective on the harness universe (= collision freeness of SHA-256d / RIPEMD160).
use bitcoin::block::{Header, Version};
use bitcoin::hashes::Hash;
use bitcoin::{BlockHash, CompactTarget, Transaction, TxMerkleNode, Txid};

/// `Header::block_hash` model: the nonce is copied into the hash.
pub fn block_hash_model(h: &Header) -> BlockHash {
    let mut b = [0u8; 32];
    b[..4].copy_from_slice(&h.nonce.to_le_bytes());
    BlockHash::from_byte_array(b)
}

/// `Transaction::compute_txid` model: the lock time is copied into the id.
pub fn txid_model(t: &Transaction) -> Txid {
    let mut b = [0u8; 32];
    b[..4].copy_from_slice(&t.lock_time.to_consensus_u32().to_le_bytes());
    Txid::from_byte_array(b)
}

pub fn hdr(n: u32) -> Header {
    Header {
        version: Version::from_consensus(1),
        prev_blockhash: BlockHash::all_zeros(),
        merkle_root: TxMerkleNode::all_zeros(),
        time: 0,
        bits: CompactTarget::from_consensus(0),
        nonce: n,
    }
}

pub fn tx(n: u32) -> Transaction {
    Transaction {
        version: bitcoin::transaction::Version::TWO,
        lock_time: bitcoin::absolute::LockTime::from_consensus(n),
        input: Vec::new(),
        output: Vec::new(),
    }
}

/// `alloc::fmt::format` stub (formatting is not the subject).
pub fn format_model(_a: std::fmt::Arguments<'_>) -> String {
    String::new()
}

// ---------------------------------------------------------------------------------------------------
// Harness utilities (universe of users / uuids / appointments / trackers)
use crate::extended_appointment::{ExtendedAppointment, UUID};
use crate::responder::{ConfirmationStatus, TransactionTracker};
use bitcoin::secp256k1::PublicKey;
use teos_common::appointment::{Appointment, Locator};
use teos_common::UserId;

/// Largest blob length the unit harnesses range over (9 slots); the slot formula itself is decided for all lengths
/// up to 2^24 in teos-common.
pub const MAX_BLOB: usize = 16384 + 2048;

/// User `i` (pure-Rust `PublicKey` of secp256k1's `secp256k1_fuzz` cfg: 64 raw bytes, byte-wise Eq/Hash).
pub fn user(i: u8) -> UserId {
    let mut b = [0u8; 64];
    b[0] = i;
    UserId(PublicKey::from(unsafe { bitcoin::secp256k1::ffi::PublicKey::from_array_unchecked(b) }))
}

pub fn locator(i: u8) -> Locator {
    let mut b = [0u8; 16];
    b[0] = i;
    Locator::from_slice(&b).unwrap()
}

pub fn uuid(i: u8) -> UUID {
    let mut b = [0u8; 20];
    b[0] = i;
    UUID::from_slice(&b).unwrap()
}

/// `UUID::new` model (RIPEMD160(locator || user)): injective on the harness universe.
pub fn uuid_model(l: Locator, u: UserId) -> UUID {
    let mut b = [0u8; 20];
    b[0] = l.to_vec()[0];
    b[1] = u.0.serialize()[1];
    b[2] = 0xaa;
    UUID::from_slice(&b).unwrap()
}

/// A blob whose *length* is symbolic (<= MAX_BLOB) and whose contents are never read by the code under test.
pub fn blob_of_len(len: usize) -> Vec<u8> {
    kani::assume(len <= MAX_BLOB);
    let mut v: Vec<u8> = Vec::with_capacity(MAX_BLOB);
    unsafe { v.set_len(len) };
    v
}

pub fn ext_appointment(loc: u8, owner: UserId, blob_len: usize) -> ExtendedAppointment {
    ExtendedAppointment::new(
        Appointment::new(locator(loc), blob_of_len(blob_len), 42),
        owner,
        String::new(),
        7,
    )
}

pub fn tracker(i: u8, owner: UserId, status: ConfirmationStatus) -> TransactionTracker {
    TransactionTracker { dispute_tx: tx(100 + i as u32), penalty_tx: tx(200 + i as u32), status, user_id: owner }
}

/// Result of the last `recover_pk` stub call: Some(k) = recovered the key of `user(k)`, None = recovery failed.
pub static mut RECOVERED: Option<u8> = None;

/// `cryptography::recover_pk` stub: *any* outcome (failure, or any of the keys user(0..=2); user(2) is never registered).
pub fn recover_pk_any(_msg: &[u8], _sig: &str) -> Result<PublicKey, bitcoin::secp256k1::Error> {
    if kani::any() {
        let k: u8 = kani::any();
        kani::assume(k <= 2);
        unsafe { RECOVERED = Some(k) };
        Ok(user(k).0)
    } else {
        unsafe { RECOVERED = None };
        Err(bitcoin::secp256k1::Error::InvalidSignature)
    }
}

/// Cheap identity of a harness user: the first raw byte of the (fuzz-cfg) public key. `user(i)` are pairwise distinct in
/// that byte, so this decides equality on the harness universe without a 64-byte comparison.
pub fn uid(u: &UserId) -> u8 {
    unsafe { *(bitcoin::secp256k1::ffi::CPtr::as_c_ptr(&u.0) as *const u8) }
}
