//! Stubs shared by the teos harnesses (hash functions that Kani cannot execute: x86 SHA intrinsics).
//! Contract: injective on the harness universe (= collision freeness of SHA-256d / RIPEMD160).
use bitcoin::block::{Header, Version};
use bitcoin::hashes::Hash;
use bitcoin::{BlockHash, CompactTarget, Transaction, TxMerkleNode, Txid};

/// `Header::block_hash` model: the nonce is copied into the hash.
pub fn block_hash_model(h: &Header) -> BlockHash {
    let mut b = [0u8; 32];
    b[..4].copy_from_slice(&h.nonce.to_le_bytes());
    BlockHash::from_byte_array(b)
}

/// `Transaction::compute_txid` model: the lock time is copied into the id.
pub fn txid_model(t: &Transaction) -> Txid {
    let mut b = [0u8; 32];
    b[..4].copy_from_slice(&t.lock_time.to_consensus_u32().to_le_bytes());
    Txid::from_byte_array(b)
}

pub fn hdr(n: u32) -> Header {
    Header {
        version: Version::from_consensus(1),
        prev_blockhash: BlockHash::all_zeros(),
        merkle_root: TxMerkleNode::all_zeros(),
        time: 0,
        bits: CompactTarget::from_consensus(0),
        nonce: n,
    }
}

pub fn tx(n: u32) -> Transaction {
    Transaction {
        version: bitcoin::transaction::Version::TWO,
        lock_time: bitcoin::absolute::LockTime::from_consensus(n),
        input: Vec::new(),
        output: Vec::new(),
    }
}

/// `alloc::fmt::format` stub (formatting is not the subject).
pub fn format_model(_a: std::fmt::Arguments<'_>) -> String {
    String::new()
}
