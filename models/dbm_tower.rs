//! Relational contract model of teos::dbm::DBM (sqlite replaced by Vec-backed tables with PK/FK/cascade semantics).
use std::cell::RefCell;
use std::path::PathBuf;

use bitcoin::secp256k1::SecretKey;
use bitcoin::BlockHash;

use teos_common::appointment::Locator;
use teos_common::UserId;

use crate::extended_appointment::{ExtendedAppointment, UUID};
use crate::gatekeeper::UserInfo;
use crate::responder::{ConfirmationStatus, PenaltySummary, TransactionTracker};
use crate::verif_collections::HashMap;

/// Shape-compatible light version of teos_common::dbm::Error (the real one carries rusqlite::Error, whose drop glue explodes).
#[derive(Debug)]
pub enum Error { AlreadyExists, MissingForeignKey, MissingField, NotFound, Unknown(()) }

#[derive(Debug)]
pub struct Tables {
    pub users: Vec<(UserId, UserInfo)>,
    pub appointments: Vec<(UUID, ExtendedAppointment)>,
    pub trackers: Vec<(UUID, TransactionTracker)>,
    pub last_known_block: Option<BlockHash>,
    pub keys: Vec<SecretKey>,
}

impl Default for Tables {
    fn default() -> Self {
        Tables { users: Vec::with_capacity(4), appointments: Vec::with_capacity(4), trackers: Vec::with_capacity(4), last_known_block: None, keys: Vec::with_capacity(2) }
    }
}

#[derive(Debug, Default)]
pub struct DBM {
    pub t: RefCell<Tables>,
}

impl DBM {
    pub fn new(_db_path: PathBuf) -> Result<Self, Error> {
        Ok(Self::default())
    }

    pub(crate) fn store_user(&self, user_id: UserId, user_info: &UserInfo) -> Result<(), Error> {
        let mut t = self.t.borrow_mut();
        if t.users.iter().any(|(u, _)| *u == user_id) {
            return Err(Error::AlreadyExists);
        }
        t.users.push((user_id, *user_info));
        Ok(())
    }

    pub(crate) fn update_user(&self, user_id: UserId, user_info: &UserInfo) {
        let mut t = self.t.borrow_mut();
        for (u, i) in t.users.iter_mut() {
            if *u == user_id {
                *i = *user_info;
            }
        }
    }

    pub(crate) fn load_user_locators(&self, user_id: UserId) -> Vec<Locator> {
        let t = self.t.borrow();
        t.appointments.iter().filter(|(_, a)| a.user_id == user_id).map(|(_, a)| a.locator()).collect()
    }

    pub(crate) fn load_all_users(&self) -> HashMap<UserId, UserInfo> {
        let t = self.t.borrow();
        t.users.iter().cloned().collect()
    }

    fn cascade(t: &mut Tables) {
        let users: Vec<UserId> = t.users.iter().map(|(u, _)| *u).collect();
        t.appointments.retain(|(_, a)| users.contains(&a.user_id));
        let uuids: Vec<UUID> = t.appointments.iter().map(|(u, _)| *u).collect();
        t.trackers.retain(|(u, _)| uuids.contains(u));
    }

    pub(crate) fn batch_remove_users(&mut self, users: &[UserId]) -> usize {
        let mut t = self.t.borrow_mut();
        t.users.retain(|(u, _)| !users.contains(u));
        Self::cascade(&mut t);
        1
    }

    pub(crate) fn get_appointments_count(&self) -> usize {
        let t = self.t.borrow();
        t.appointments.iter().filter(|(u, _)| !t.trackers.iter().any(|(x, _)| x == u)).count()
    }

    pub(crate) fn get_trackers_count(&self) -> usize {
        self.t.borrow().trackers.len()
    }

    pub(crate) fn store_appointment(&self, uuid: UUID, appointment: &ExtendedAppointment) -> Result<(), Error> {
        let mut t = self.t.borrow_mut();
        if t.appointments.iter().any(|(u, _)| *u == uuid) {
            return Err(Error::AlreadyExists);
        }
        if !t.users.iter().any(|(u, _)| *u == appointment.user_id) {
            return Err(Error::MissingForeignKey);
        }
        t.appointments.push((uuid, appointment.clone()));
        Ok(())
    }

    pub(crate) fn update_appointment(&self, uuid: UUID, appointment: &ExtendedAppointment) -> Result<(), Error> {
        let mut t = self.t.borrow_mut();
        for (u, a) in t.appointments.iter_mut() {
            if *u == uuid {
                a.inner.encrypted_blob = appointment.inner.encrypted_blob.clone();
                a.inner.to_self_delay = appointment.inner.to_self_delay;
                a.user_signature = appointment.user_signature.clone();
                a.start_block = appointment.start_block;
                return Ok(());
            }
        }
        Err(Error::NotFound)
    }

    pub(crate) fn load_appointment(&self, uuid: UUID) -> Option<ExtendedAppointment> {
        let t = self.t.borrow();
        t.appointments.iter().find(|(u, _)| *u == uuid).map(|(_, a)| a.clone())
    }

    pub(crate) fn appointment_exists(&self, uuid: UUID) -> bool {
        self.t.borrow().appointments.iter().any(|(u, _)| *u == uuid)
    }

    pub(crate) fn load_appointments(&self, locator: Option<Locator>) -> HashMap<UUID, ExtendedAppointment> {
        let t = self.t.borrow();
        t.appointments
            .iter()
            .filter(|(u, a)| !t.trackers.iter().any(|(x, _)| x == u) && locator.map_or(true, |l| a.locator() == l))
            .cloned()
            .collect()
    }

    pub(crate) fn get_appointment_length(&self, uuid: UUID) -> Option<usize> {
        let t = self.t.borrow();
        t.appointments.iter().find(|(u, _)| *u == uuid).map(|(_, a)| a.inner.encrypted_blob.len())
    }

    pub(crate) fn get_appointment_user_and_length(&self, uuid: UUID) -> Option<(UserId, usize)> {
        let t = self.t.borrow();
        t.appointments.iter().find(|(u, _)| *u == uuid).map(|(_, a)| (a.user_id, a.inner.encrypted_blob.len()))
    }

    pub(crate) fn remove_appointment(&self, uuid: UUID) {
        let mut t = self.t.borrow_mut();
        t.appointments.retain(|(u, _)| *u != uuid);
        Self::cascade(&mut t);
    }

    pub(crate) fn batch_remove_appointments(&mut self, appointments: &[UUID], updated_users: &HashMap<UserId, UserInfo>) -> usize {
        let mut t = self.t.borrow_mut();
        t.appointments.retain(|(u, _)| !appointments.contains(u));
        Self::cascade(&mut t);
        for (id, info) in updated_users.iter() {
            for (u, i) in t.users.iter_mut() {
                if u == id {
                    i.available_slots = info.available_slots;
                }
            }
        }
        1
    }

    pub(crate) fn load_uuids(&self, locator: Locator) -> Vec<UUID> {
        let t = self.t.borrow();
        t.appointments.iter().filter(|(_, a)| a.locator() == locator).map(|(u, _)| *u).collect()
    }

    pub(crate) fn batch_check_locators_exist(&self, locators: Vec<&Locator>) -> Vec<Locator> {
        let t = self.t.borrow();
        t.appointments.iter().filter(|(_, a)| locators.iter().any(|l| **l == a.locator())).map(|(_, a)| a.locator()).collect()
    }

    pub(crate) fn store_tracker(&self, uuid: UUID, tracker: &TransactionTracker) -> Result<(), Error> {
        tracker.status.to_db_data().ok_or(Error::MissingField)?;
        let mut t = self.t.borrow_mut();
        if t.trackers.iter().any(|(u, _)| *u == uuid) {
            return Err(Error::AlreadyExists);
        }
        if !t.appointments.iter().any(|(u, _)| *u == uuid) {
            return Err(Error::MissingForeignKey);
        }
        t.trackers.push((uuid, tracker.clone()));
        Ok(())
    }

    pub(crate) fn update_tracker_status(&self, uuid: UUID, status: &ConfirmationStatus) -> Result<(), Error> {
        let (h, c) = status.to_db_data().ok_or(Error::MissingField)?;
        let mut t = self.t.borrow_mut();
        for (u, tr) in t.trackers.iter_mut() {
            if *u == uuid {
                tr.status = ConfirmationStatus::from_db_data(h, c);
                return Ok(());
            }
        }
        Err(Error::NotFound)
    }

    pub(crate) fn load_tracker(&self, uuid: UUID) -> Option<TransactionTracker> {
        let t = self.t.borrow();
        t.trackers.iter().find(|(u, _)| *u == uuid).map(|(_, tr)| tr.clone())
    }

    pub(crate) fn tracker_exists(&self, uuid: UUID) -> bool {
        self.t.borrow().trackers.iter().any(|(u, _)| *u == uuid)
    }

    pub(crate) fn load_trackers(&self, locator: Option<Locator>) -> HashMap<UUID, TransactionTracker> {
        let t = self.t.borrow();
        t.trackers
            .iter()
            .filter(|(u, _)| locator.map_or(true, |l| t.appointments.iter().any(|(x, a)| x == u && a.locator() == l)))
            .cloned()
            .collect()
    }

    pub(crate) fn load_trackers_with_confirmation_status(&self, status: ConfirmationStatus) -> Result<Vec<UUID>, Error> {
        let (height, confirmed) = status.to_db_data().ok_or(Error::MissingField)?;
        let t = self.t.borrow();
        Ok(t.trackers
            .iter()
            .filter(|(_, tr)| match tr.status.to_db_data() {
                Some((h, c)) => c == confirmed && if confirmed { h == height } else { h <= height },
                None => false,
            })
            .map(|(u, _)| *u)
            .collect())
    }

    pub(crate) fn load_penalties_summaries(&self) -> HashMap<UUID, PenaltySummary> {
        let t = self.t.borrow();
        t.trackers.iter().map(|(u, tr)| (*u, PenaltySummary::new(tr.penalty_tx.compute_txid(), tr.status))).collect()
    }

    pub(crate) fn store_last_known_block(&self, block_hash: &BlockHash) -> Result<(), Error> {
        self.t.borrow_mut().last_known_block = Some(*block_hash);
        Ok(())
    }

    pub fn load_last_known_block(&self) -> Option<BlockHash> {
        self.t.borrow().last_known_block
    }

    pub fn store_tower_key(&self, sk: &SecretKey) -> Result<(), Error> {
        self.t.borrow_mut().keys.push(*sk);
        Ok(())
    }

    pub fn load_tower_key(&self) -> Option<SecretKey> {
        self.t.borrow().keys.last().cloned()
    }
}
