//! Relational contract model of `teos::dbm::DBM` (compiled instead of teos/src/dbm.rs under cfg(kani)).
//!
//! sqlite is replaced by three fixed-capacity tables (capacity 4 rows each, no row shifting on deletion) with the
//! constraints of the real schema: primary keys (users.user_id, appointments.UUID, trackers.UUID), foreign keys
//! appointments.user_id -> users, trackers.UUID -> appointments, both ON DELETE CASCADE; `load_appointments` /
//! `get_appointments_count` exclude appointments that have a tracker (LEFT JOIN ... IS NULL); the `<=` / `=` rule of
//! `load_trackers_with_confirmation_status`. Method names and signatures are those of the real DBM.
//!
//! Errors: shape-compatible light version of `teos_common::dbm::Error` (the real one carries `rusqlite::Error`, whose
//! drop glue makes CBMC explode once the discriminant is symbolic).
//!
//! The tables live in a typed `static` (one model database per harness): keeping them inside the `Arc<Mutex<DBM>>` heap
//! object makes CBMC treat every access as byte extraction from an untyped allocation (measured: 8M variables / 50M
//! clauses for one row read; with a static: 57k variables).
#[cfg(not(kani))]
#[allow(unused_imports)]
use crate::verif_kani_shim as kani;
use std::path::PathBuf;

use bitcoin::secp256k1::SecretKey;
use bitcoin::BlockHash;

use teos_common::appointment::Locator;
use teos_common::UserId;

use crate::extended_appointment::{ExtendedAppointment, UUID};
use crate::gatekeeper::UserInfo;
use crate::responder::{ConfirmationStatus, PenaltySummary, TransactionTracker};
use crate::verif_collections::HashMap;

#[derive(Debug)]
pub enum Error {
    AlreadyExists,
    MissingForeignKey,
    MissingField,
    NotFound,
    Unknown(()),
}

/// Appointment row without heap pointers (rows with pointers make CBMC copy table slots byte-wise; measured: out of
/// memory vs. seconds). The blob is represented by its length and its first two bytes (`blob_tag`, all the decrypt
/// model looks at), the user signature by its first byte (0 = empty): on the harness universe these identify them.
#[derive(Debug, Clone, Copy, PartialEq, Eq)]
pub struct AppRow {
    pub locator: Locator,
    pub blob_len: usize,
    pub blob_tag: [u8; 2],
    pub to_self_delay: u32,
    pub sig: u8,
    pub start_block: u32,
    pub user_id: UserId,
}

/// Tracker row without heap pointers: transactions are identified by their lock time (harness universe: `tx(n)`).
#[derive(Debug, Clone, Copy, PartialEq, Eq)]
pub struct TrackerRow {
    pub dispute: u32,
    pub penalty: u32,
    pub status: ConfirmationStatus,
    pub user_id: UserId,
}

impl AppRow {
    pub fn of(a: &ExtendedAppointment) -> Self {
        let b = &a.inner.encrypted_blob;
        let mut tag = [0u8; 2];
        if b.len() > 0 {
            tag[0] = b[0];
        }
        if b.len() > 1 {
            tag[1] = b[1];
        }
        AppRow {
            locator: a.inner.locator,
            blob_len: b.len(),
            blob_tag: tag,
            to_self_delay: a.inner.to_self_delay,
            sig: a.user_signature.as_bytes().first().copied().unwrap_or(0),
            start_block: a.start_block,
            user_id: a.user_id,
        }
    }
    pub fn to_appointment(&self) -> ExtendedAppointment {
        let mut blob = crate::verif_stubs::blob_of_len(self.blob_len);
        if self.blob_len > 0 {
            blob[0] = self.blob_tag[0];
        }
        if self.blob_len > 1 {
            blob[1] = self.blob_tag[1];
        }
        ExtendedAppointment::new(
            teos_common::appointment::Appointment::new(self.locator, blob, self.to_self_delay),
            self.user_id,
            crate::verif_stubs::sig_of(self.sig),
            self.start_block,
        )
    }
}

impl TrackerRow {
    pub fn of(t: &TransactionTracker) -> Self {
        TrackerRow {
            dispute: t.dispute_tx.lock_time.to_consensus_u32(),
            penalty: t.penalty_tx.lock_time.to_consensus_u32(),
            status: t.status,
            user_id: t.user_id,
        }
    }
    pub fn to_tracker(&self) -> TransactionTracker {
        TransactionTracker {
            dispute_tx: crate::verif_stubs::tx(self.dispute),
            penalty_tx: crate::verif_stubs::tx(self.penalty),
            status: self.status,
            user_id: self.user_id,
        }
    }
}

#[derive(Debug)]
pub struct Tables {
    pub users: HashMap<UserId, UserInfo>,
    pub appointments: HashMap<UUID, AppRow>,
    pub trackers: HashMap<UUID, TrackerRow>,
    pub last_known_block: Option<BlockHash>,
    pub key: Option<SecretKey>,
    /// Number of calls of the writing methods (harness observability: "no write happened").
    pub writes: u32,
}

impl Tables {
    pub const EMPTY: Tables = Tables {
        users: HashMap::new_const(),
        appointments: HashMap::new_const(),
        trackers: HashMap::new_const(),
        last_known_block: None,
        key: None,
        writes: 0,
    };
}

pub static mut TABLES: Tables = Tables::EMPTY;
/// Argument of the last `load_trackers_with_confirmation_status` call (harness observability).
pub static mut LAST_STATUS_QUERY: Option<ConfirmationStatus> = None;

#[derive(Debug)]
pub struct DBM {
    _handle: u8,
}

impl Default for DBM {
    fn default() -> Self {
        DBM { _handle: 0 }
    }
}

fn t() -> &'static Tables {
    unsafe { &*std::ptr::addr_of!(TABLES) }
}
fn tm() -> &'static mut Tables {
    let r = unsafe { &mut *std::ptr::addr_of_mut!(TABLES) };
    r.writes = r.writes.wrapping_add(1);
    r
}

fn cascade(t: &mut Tables) {
    let Tables { users, appointments, trackers, .. } = t;
    appointments.retain(|_, a| users.contains_key(&a.user_id));
    trackers.retain(|u, _| appointments.contains_key(u));
}

impl DBM {
    pub fn new(_db_path: PathBuf) -> Result<Self, Error> {
        Ok(Self::default())
    }

    pub(crate) fn store_user(&self, user_id: UserId, user_info: &UserInfo) -> Result<(), Error> {
        let t = tm();
        if t.users.contains_key(&user_id) {
            return Err(Error::AlreadyExists);
        }
        t.users.insert(user_id, *user_info);
        Ok(())
    }

    pub(crate) fn update_user(&self, user_id: UserId, user_info: &UserInfo) {
        let t = tm();
        if let Some(i) = t.users.get_mut(&user_id) {
            *i = *user_info;
        }
    }

    pub(crate) fn load_user_locators(&self, user_id: UserId) -> Vec<Locator> {
        let t = t();
        let mut v = Vec::with_capacity(crate::verif_collections::CAP);
        for (_, a) in t.appointments.iter() {
            if a.user_id == user_id {
                v.push(a.locator);
            }
        }
        v
    }

    pub(crate) fn load_all_users(&self) -> HashMap<UserId, UserInfo> {
        t().users.clone()
    }

    pub(crate) fn batch_remove_users(&mut self, users: &[UserId]) -> usize {
        let t = tm();
        t.users.retain(|u, _| !users.contains(u));
        cascade(t);
        1
    }

    pub(crate) fn get_appointments_count(&self) -> usize {
        let t = t();
        t.appointments.iter().filter(|(u, _)| !t.trackers.contains_key(*u)).count()
    }

    pub(crate) fn get_trackers_count(&self) -> usize {
        t().trackers.len()
    }

    pub(crate) fn store_appointment(&self, uuid: UUID, appointment: &ExtendedAppointment) -> Result<(), Error> {
        let t = tm();
        if t.appointments.contains_key(&uuid) {
            return Err(Error::AlreadyExists);
        }
        if !t.users.contains_key(&appointment.user_id) {
            return Err(Error::MissingForeignKey);
        }
        t.appointments.insert(uuid, AppRow::of(appointment));
        Ok(())
    }

    pub(crate) fn update_appointment(&self, uuid: UUID, appointment: &ExtendedAppointment) -> Result<(), Error> {
        let t = tm();
        match t.appointments.get_mut(&uuid) {
            Some(a) => {
                // the four updatable columns of the real UPDATE statement
                let n = AppRow::of(appointment);
                a.blob_len = n.blob_len;
                a.blob_tag = n.blob_tag;
                a.to_self_delay = n.to_self_delay;
                a.sig = n.sig;
                a.start_block = n.start_block;
                Ok(())
            }
            None => Err(Error::NotFound),
        }
    }

    pub(crate) fn load_appointment(&self, uuid: UUID) -> Option<ExtendedAppointment> {
        t().appointments.get(&uuid).map(|a| a.to_appointment())
    }

    pub(crate) fn appointment_exists(&self, uuid: UUID) -> bool {
        t().appointments.contains_key(&uuid)
    }

    pub(crate) fn load_appointments(&self, locator: Option<Locator>) -> HashMap<UUID, ExtendedAppointment> {
        let t = t();
        t.appointments
            .iter()
            .filter(|(u, a)| !t.trackers.contains_key(*u) && locator.map_or(true, |l| a.locator == l))
            .map(|(u, a)| (*u, a.to_appointment()))
            .collect()
    }

    pub(crate) fn get_appointment_length(&self, uuid: UUID) -> Option<usize> {
        t().appointments.get(&uuid).map(|a| a.blob_len)
    }

    pub(crate) fn get_appointment_user_and_length(&self, uuid: UUID) -> Option<(UserId, usize)> {
        t().appointments.get(&uuid).map(|a| (a.user_id, a.blob_len))
    }

    pub(crate) fn remove_appointment(&self, uuid: UUID) {
        let t = tm();
        t.appointments.remove(&uuid);
        cascade(t);
    }

    pub(crate) fn batch_remove_appointments(
        &mut self,
        appointments: &[UUID],
        updated_users: &HashMap<UserId, UserInfo>,
    ) -> usize {
        let t = tm();
        t.appointments.retain(|u, _| !appointments.contains(u));
        cascade(t);
        for (id, info) in updated_users.iter() {
            if let Some(i) = t.users.get_mut(id) {
                // UPDATE users SET available_slots=(?1) WHERE user_id=(?2)
                i.available_slots = info.available_slots;
            }
        }
        1
    }

    pub(crate) fn load_uuids(&self, locator: Locator) -> Vec<UUID> {
        let mut v = Vec::with_capacity(crate::verif_collections::CAP);
        for (u, a) in t().appointments.iter() {
            if a.locator == locator {
                v.push(*u);
            }
        }
        v
    }

    pub(crate) fn batch_check_locators_exist(&self, locators: Vec<&Locator>) -> Vec<Locator> {
        let mut v = Vec::with_capacity(crate::verif_collections::CAP);
        for (_, a) in t().appointments.iter() {
            if locators.iter().any(|l| **l == a.locator) {
                v.push(a.locator);
            }
        }
        v
    }

    pub(crate) fn store_tracker(&self, uuid: UUID, tracker: &TransactionTracker) -> Result<(), Error> {
        tracker.status.to_db_data().ok_or(Error::MissingField)?;
        let t = tm();
        if t.trackers.contains_key(&uuid) {
            return Err(Error::AlreadyExists);
        }
        if !t.appointments.contains_key(&uuid) {
            return Err(Error::MissingForeignKey);
        }
        t.trackers.insert(uuid, TrackerRow::of(tracker));
        Ok(())
    }

    pub(crate) fn update_tracker_status(&self, uuid: UUID, status: &ConfirmationStatus) -> Result<(), Error> {
        let (h, c) = status.to_db_data().ok_or(Error::MissingField)?;
        let t = tm();
        match t.trackers.get_mut(&uuid) {
            Some(tr) => {
                tr.status = ConfirmationStatus::from_db_data(h, c);
                Ok(())
            }
            None => Err(Error::NotFound),
        }
    }

    pub(crate) fn load_tracker(&self, uuid: UUID) -> Option<TransactionTracker> {
        // SELECT t.dispute_tx, t.penalty_tx, t.height, t.confirmed, a.user_id FROM trackers t INNER JOIN appointments a
        let t = t();
        t.trackers.get(&uuid).map(|r| {
            let mut tr = r.to_tracker();
            if let Some(a) = t.appointments.get(&uuid) {
                tr.user_id = a.user_id;
            }
            tr
        })
    }

    pub(crate) fn tracker_exists(&self, uuid: UUID) -> bool {
        t().trackers.contains_key(&uuid)
    }

    pub(crate) fn load_trackers(&self, locator: Option<Locator>) -> HashMap<UUID, TransactionTracker> {
        let t = t();
        t.trackers
            .iter()
            .filter(|(u, _)| locator.map_or(true, |l| t.appointments.get(*u).map_or(false, |a| a.locator == l)))
            .map(|(u, tr)| {
                let mut x = tr.to_tracker();
                if let Some(a) = t.appointments.get(u) {
                    x.user_id = a.user_id;
                }
                (*u, x)
            })
            .collect()
    }

    pub(crate) fn load_trackers_with_confirmation_status(&self, status: ConfirmationStatus) -> Result<Vec<UUID>, Error> {
        let (height, confirmed) = status.to_db_data().ok_or(Error::MissingField)?;
        unsafe { LAST_STATUS_QUERY = Some(status) };
        let t = t();
        let mut v = Vec::with_capacity(crate::verif_collections::CAP);
        for (u, tr) in t.trackers.iter() {
            let sel = match tr.status.to_db_data() {
                Some((h, c)) => c == confirmed && if confirmed { h == height } else { h <= height },
                None => false,
            };
            if sel {
                v.push(*u);
            }
        }
        Ok(v)
    }

    pub(crate) fn load_penalties_summaries(&self) -> HashMap<UUID, PenaltySummary> {
        t().trackers.iter().map(|(u, tr)| (*u, PenaltySummary::new(crate::verif_stubs::txid_model(&crate::verif_stubs::tx(tr.penalty)), tr.status))).collect()
    }

    pub(crate) fn store_last_known_block(&self, block_hash: &BlockHash) -> Result<(), Error> {
        tm().last_known_block = Some(*block_hash);
        Ok(())
    }

    pub fn load_last_known_block(&self) -> Option<BlockHash> {
        t().last_known_block
    }

    pub fn store_tower_key(&self, sk: &SecretKey) -> Result<(), Error> {
        tm().key = Some(*sk);
        Ok(())
    }

    pub fn load_tower_key(&self) -> Option<SecretKey> {
        t().key
    }

    // ---- harness access (pre-state construction and observation; not part of the real API)
    /// Empties the model database (the native twin run executes many sequences in one process).
    pub(crate) fn verif_reset(&self) {
        unsafe { TABLES = Tables::EMPTY };
    }
    pub(crate) fn verif_user(&self, user_id: UserId) -> Option<UserInfo> {
        t().users.get(&user_id).cloned()
    }
    pub(crate) fn verif_push_appointment(&self, uuid: UUID, a: ExtendedAppointment) {
        let t = tm();
        t.appointments.insert(uuid, AppRow::of(&a));
        t.writes -= 1;
        std::mem::forget(a);
    }
    pub(crate) fn verif_push_tracker(&self, uuid: UUID, tr: TransactionTracker) {
        let t = tm();
        t.trackers.insert(uuid, TrackerRow::of(&tr));
        t.writes -= 1;
        std::mem::forget(tr);
    }
    pub(crate) fn verif_app_row(&self, uuid: UUID) -> Option<AppRow> {
        t().appointments.get(&uuid).copied()
    }
    pub(crate) fn verif_tracker_row(&self, uuid: UUID) -> Option<TrackerRow> {
        t().trackers.get(&uuid).copied()
    }
    pub(crate) fn verif_writes(&self) -> u32 {
        t().writes
    }
    pub(crate) fn verif_tracker_status(&self, uuid: UUID) -> Option<ConfirmationStatus> {
        t().trackers.get(&uuid).map(|tr| tr.status)
    }
}
