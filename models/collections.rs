//! Fixed-capacity association list with the subset of the std HashMap/HashSet API used by teos.
//! Semantics = finite map / finite set of at most CAP entries; exceeding CAP is outside the stated bound
//! (the path is discarded with kani::assume(false)).
#[cfg(not(kani))]
#[allow(unused_imports)]
use crate::verif_kani_shim as kani;
use std::borrow::Borrow;
use std::fmt;

pub const CAP: usize = 4;

fn out_of_bound() -> ! {
    kani::assume(false);
    unreachable!()
}

pub struct HashMap<K, V> {
    e: [Option<(K, V)>; CAP],
}

impl<K: Clone, V: Clone> Clone for HashMap<K, V> {
    fn clone(&self) -> Self {
        HashMap { e: self.e.clone() }
    }
}

impl<K, V> fmt::Debug for HashMap<K, V> {
    fn fmt(&self, f: &mut fmt::Formatter<'_>) -> fmt::Result {
        write!(f, "HashMap")
    }
}

impl<K: Eq, V> Default for HashMap<K, V> {
    fn default() -> Self {
        Self::new()
    }
}

impl<K, V> HashMap<K, V> {
    pub const fn new_const() -> Self {
        HashMap { e: [const { None }; CAP] }
    }
}

impl<K: Eq, V> HashMap<K, V> {
    pub fn new() -> Self {
        HashMap { e: [const { None }; CAP] }
    }
    pub fn with_capacity(_n: usize) -> Self {
        Self::new()
    }
    fn pos<Q: ?Sized + Eq>(&self, k: &Q) -> Option<usize>
    where
        K: Borrow<Q>,
    {
        let mut i = 0;
        while i < CAP {
            if let Some((kk, _)) = &self.e[i] {
                if kk.borrow() == k {
                    return Some(i);
                }
            }
            i += 1;
        }
        None
    }
    pub fn len(&self) -> usize {
        let mut n = 0;
        let mut i = 0;
        while i < CAP {
            if self.e[i].is_some() {
                n += 1;
            }
            i += 1;
        }
        n
    }
    pub fn is_empty(&self) -> bool {
        self.len() == 0
    }
    pub fn get<Q: ?Sized + Eq>(&self, k: &Q) -> Option<&V>
    where
        K: Borrow<Q>,
    {
        match self.pos(k) {
            Some(i) => self.e[i].as_ref().map(|(_, v)| v),
            None => None,
        }
    }
    pub fn get_mut<Q: ?Sized + Eq>(&mut self, k: &Q) -> Option<&mut V>
    where
        K: Borrow<Q>,
    {
        match self.pos(k) {
            Some(i) => self.e[i].as_mut().map(|(_, v)| v),
            None => None,
        }
    }
    pub fn contains_key<Q: ?Sized + Eq>(&self, k: &Q) -> bool
    where
        K: Borrow<Q>,
    {
        self.pos(k).is_some()
    }
    pub fn insert(&mut self, k: K, v: V) -> Option<V> {
        match self.pos(&k) {
            Some(i) => self.e[i].replace((k, v)).map(|(_, v)| v),
            None => {
                let mut i = 0;
                while i < CAP {
                    if self.e[i].is_none() {
                        self.e[i] = Some((k, v));
                        return None;
                    }
                    i += 1;
                }
                out_of_bound()
            }
        }
    }
    pub fn remove<Q: ?Sized + Eq>(&mut self, k: &Q) -> Option<V>
    where
        K: Borrow<Q>,
    {
        match self.pos(k) {
            Some(i) => self.e[i].take().map(|(_, v)| v),
            None => None,
        }
    }
    pub fn retain<F: FnMut(&K, &mut V) -> bool>(&mut self, mut f: F) {
        let mut i = 0;
        while i < CAP {
            let keep = match &mut self.e[i] {
                Some((k, v)) => f(k, v),
                None => true,
            };
            if !keep {
                self.e[i] = None;
            }
            i += 1;
        }
    }
    pub fn iter(&self) -> Iter<'_, K, V> {
        Iter { m: self, i: 0 }
    }
    pub fn keys(&self) -> Keys<'_, K, V> {
        Keys { it: self.iter() }
    }
}

pub struct Iter<'a, K, V> {
    m: &'a HashMap<K, V>,
    i: usize,
}
impl<'a, K, V> Iterator for Iter<'a, K, V> {
    type Item = (&'a K, &'a V);
    fn next(&mut self) -> Option<Self::Item> {
        while self.i < CAP {
            let j = self.i;
            self.i += 1;
            if let Some((k, v)) = &self.m.e[j] {
                return Some((k, v));
            }
        }
        None
    }
}
pub struct Keys<'a, K, V> {
    it: Iter<'a, K, V>,
}
impl<'a, K, V> Iterator for Keys<'a, K, V> {
    type Item = &'a K;
    fn next(&mut self) -> Option<&'a K> {
        self.it.next().map(|(k, _)| k)
    }
}
impl<'a, K, V> fmt::Debug for Keys<'a, K, V> {
    fn fmt(&self, f: &mut fmt::Formatter<'_>) -> fmt::Result {
        write!(f, "Keys")
    }
}

impl<K: Eq, V: PartialEq> PartialEq for HashMap<K, V> {
    fn eq(&self, o: &Self) -> bool {
        self.len() == o.len() && self.iter().all(|(k, v)| o.get(k) == Some(v))
    }
}
impl<K: Eq, V: Eq> Eq for HashMap<K, V> {}

impl<K: Eq, V> FromIterator<(K, V)> for HashMap<K, V> {
    fn from_iter<I: IntoIterator<Item = (K, V)>>(it: I) -> Self {
        let mut m = HashMap::new();
        for (k, v) in it {
            m.insert(k, v);
        }
        m
    }
}
pub struct IntoIter<K, V> {
    e: [Option<(K, V)>; CAP],
    i: usize,
}
impl<K, V> Iterator for IntoIter<K, V> {
    type Item = (K, V);
    fn next(&mut self) -> Option<(K, V)> {
        while self.i < CAP {
            let j = self.i;
            self.i += 1;
            if let Some(x) = self.e[j].take() {
                return Some(x);
            }
        }
        None
    }
}
impl<K: Eq, V> IntoIterator for HashMap<K, V> {
    type Item = (K, V);
    type IntoIter = IntoIter<K, V>;
    fn into_iter(self) -> Self::IntoIter {
        IntoIter { e: self.e, i: 0 }
    }
}
impl<K: Eq + Borrow<Q>, Q: ?Sized + Eq, V> std::ops::Index<&Q> for HashMap<K, V> {
    type Output = V;
    fn index(&self, k: &Q) -> &V {
        self.get(k).expect("no entry found for key")
    }
}

#[derive(Clone, Debug)]
pub struct HashSet<T> {
    m: HashMap<T, ()>,
}
impl<T: Eq> Default for HashSet<T> {
    fn default() -> Self {
        Self::new()
    }
}
impl<T: Eq> HashSet<T> {
    pub fn new() -> Self {
        HashSet { m: HashMap::new() }
    }
    pub fn len(&self) -> usize {
        self.m.len()
    }
    pub fn is_empty(&self) -> bool {
        self.m.is_empty()
    }
    pub fn contains(&self, t: &T) -> bool {
        self.m.contains_key(t)
    }
    pub fn insert(&mut self, t: T) -> bool {
        self.m.insert(t, ()).is_none()
    }
    pub fn remove(&mut self, t: &T) -> bool {
        self.m.remove(t).is_some()
    }
    pub fn drain(&mut self) -> std::iter::Map<IntoIter<T, ()>, fn((T, ())) -> T> {
        fn fst<T>(x: (T, ())) -> T {
            x.0
        }
        std::mem::take(&mut self.m).into_iter().map(fst::<T> as fn((T, ())) -> T)
    }
    pub fn iter(&self) -> Keys<'_, T, ()> {
        self.m.keys()
    }
}
impl<T: Eq> Extend<T> for HashSet<T> {
    fn extend<I: IntoIterator<Item = T>>(&mut self, it: I) {
        for t in it {
            self.insert(t);
        }
    }
}
impl<T: Eq> FromIterator<T> for HashSet<T> {
    fn from_iter<I: IntoIterator<Item = T>>(it: I) -> Self {
        let mut s = HashSet::new();
        s.extend(it);
        s
    }
}
impl<T: Eq> PartialEq for HashSet<T> {
    fn eq(&self, o: &Self) -> bool {
        self.m == o.m
    }
}
impl<T: Eq> Eq for HashSet<T> {}

// ---- wider std API surface, so that ordinary refactorings of the code under test still compile against the model
pub enum Entry<'a, K, V> {
    Occupied(&'a mut HashMap<K, V>, usize),
    Vacant(&'a mut HashMap<K, V>, K),
}
impl<'a, K: Eq, V> Entry<'a, K, V> {
    pub fn or_insert(self, default: V) -> &'a mut V {
        self.or_insert_with(|| default)
    }
    pub fn or_insert_with<F: FnOnce() -> V>(self, f: F) -> &'a mut V {
        match self {
            Entry::Occupied(m, i) => m.e[i].as_mut().map(|(_, v)| v).unwrap(),
            Entry::Vacant(m, k) => {
                let mut i = 0;
                while i < CAP {
                    if m.e[i].is_none() {
                        m.e[i] = Some((k, f()));
                        return m.e[i].as_mut().map(|(_, v)| v).unwrap();
                    }
                    i += 1;
                }
                out_of_bound()
            }
        }
    }
    pub fn or_default(self) -> &'a mut V
    where
        V: Default,
    {
        self.or_insert_with(V::default)
    }
    pub fn and_modify<F: FnOnce(&mut V)>(self, f: F) -> Self {
        match self {
            Entry::Occupied(m, i) => {
                if let Some((_, v)) = m.e[i].as_mut() {
                    f(v);
                }
                Entry::Occupied(m, i)
            }
            e => e,
        }
    }
}
impl<K: Eq, V> HashMap<K, V> {
    pub fn entry(&mut self, k: K) -> Entry<'_, K, V> {
        match self.pos(&k) {
            Some(i) => Entry::Occupied(self, i),
            None => Entry::Vacant(self, k),
        }
    }
    pub fn clear(&mut self) {
        let mut i = 0;
        while i < CAP {
            self.e[i] = None;
            i += 1;
        }
    }
    pub fn values(&self) -> impl Iterator<Item = &V> {
        self.iter().map(|(_, v)| v)
    }
    pub fn values_mut(&mut self) -> impl Iterator<Item = &mut V> {
        self.e.iter_mut().filter_map(|x| x.as_mut().map(|(_, v)| v))
    }
    pub fn iter_mut(&mut self) -> impl Iterator<Item = (&K, &mut V)> {
        self.e.iter_mut().filter_map(|x| x.as_mut().map(|(k, v)| (&*k, v)))
    }
    pub fn into_keys(self) -> impl Iterator<Item = K> {
        self.into_iter().map(|(k, _)| k)
    }
    pub fn into_values(self) -> impl Iterator<Item = V> {
        self.into_iter().map(|(_, v)| v)
    }
    pub fn remove_entry<Q: ?Sized + Eq>(&mut self, k: &Q) -> Option<(K, V)>
    where
        K: Borrow<Q>,
    {
        match self.pos(k) {
            Some(i) => self.e[i].take(),
            None => None,
        }
    }
    pub fn get_key_value<Q: ?Sized + Eq>(&self, k: &Q) -> Option<(&K, &V)>
    where
        K: Borrow<Q>,
    {
        match self.pos(k) {
            Some(i) => self.e[i].as_ref().map(|(k, v)| (k, v)),
            None => None,
        }
    }
    pub fn drain(&mut self) -> IntoIter<K, V> {
        std::mem::take(self).into_iter()
    }
}
impl<K: Eq, V> Extend<(K, V)> for HashMap<K, V> {
    fn extend<I: IntoIterator<Item = (K, V)>>(&mut self, it: I) {
        for (k, v) in it {
            self.insert(k, v);
        }
    }
}
impl<'a, K: Eq, V> IntoIterator for &'a HashMap<K, V> {
    type Item = (&'a K, &'a V);
    type IntoIter = Iter<'a, K, V>;
    fn into_iter(self) -> Iter<'a, K, V> {
        self.iter()
    }
}
impl<T: Eq> HashSet<T> {
    pub fn with_capacity(_n: usize) -> Self {
        Self::new()
    }
    pub fn clear(&mut self) {
        self.m.clear()
    }
    pub fn retain<F: FnMut(&T) -> bool>(&mut self, mut f: F) {
        self.m.retain(|k, _| f(k))
    }
    pub fn take(&mut self, t: &T) -> Option<T> {
        self.m.remove_entry(t).map(|(k, _)| k)
    }
    pub fn is_subset(&self, o: &Self) -> bool {
        self.iter().all(|x| o.contains(x))
    }
}
impl<T: Eq> IntoIterator for HashSet<T> {
    type Item = T;
    type IntoIter = std::iter::Map<IntoIter<T, ()>, fn((T, ())) -> T>;
    fn into_iter(self) -> Self::IntoIter {
        fn fst<T>(x: (T, ())) -> T {
            x.0
        }
        self.m.into_iter().map(fst::<T> as fn((T, ())) -> T)
    }
}
impl<'a, T: Eq> IntoIterator for &'a HashSet<T> {
    type Item = &'a T;
    type IntoIter = Keys<'a, T, ()>;
    fn into_iter(self) -> Keys<'a, T, ()> {
        self.iter()
    }
}
