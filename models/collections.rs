//! Fixed-capacity association list with the subset of the std HashMap/HashSet API used by teos.
//! Semantics = finite map / finite set of at most CAP entries; exceeding CAP is outside the stated bound
//! (the path is discarded with kani::assume(false)).
use std::borrow::Borrow;
use std::fmt;

pub const CAP: usize = 4;

fn out_of_bound() -> ! {
    kani::assume(false);
    unreachable!()
}

pub struct HashMap<K, V> {
    e: [Option<(K, V)>; CAP],
}

impl<K: Clone, V: Clone> Clone for HashMap<K, V> {
    fn clone(&self) -> Self {
        HashMap { e: self.e.clone() }
    }
}

impl<K, V> fmt::Debug for HashMap<K, V> {
    fn fmt(&self, f: &mut fmt::Formatter<'_>) -> fmt::Result {
        write!(f, "HashMap")
    }
}

impl<K: Eq, V> Default for HashMap<K, V> {
    fn default() -> Self {
        Self::new()
    }
}

impl<K, V> HashMap<K, V> {
    pub const fn new_const() -> Self {
        HashMap { e: [const { None }; CAP] }
    }
}

impl<K: Eq, V> HashMap<K, V> {
    pub fn new() -> Self {
        HashMap { e: [const { None }; CAP] }
    }
    pub fn with_capacity(_n: usize) -> Self {
        Self::new()
    }
    fn pos<Q: ?Sized + Eq>(&self, k: &Q) -> Option<usize>
    where
        K: Borrow<Q>,
    {
        let mut i = 0;
        while i < CAP {
            if let Some((kk, _)) = &self.e[i] {
                if kk.borrow() == k {
                    return Some(i);
                }
            }
            i += 1;
        }
        None
    }
    pub fn len(&self) -> usize {
        let mut n = 0;
        let mut i = 0;
        while i < CAP {
            if self.e[i].is_some() {
                n += 1;
            }
            i += 1;
        }
        n
    }
    pub fn is_empty(&self) -> bool {
        self.len() == 0
    }
    pub fn get<Q: ?Sized + Eq>(&self, k: &Q) -> Option<&V>
    where
        K: Borrow<Q>,
    {
        match self.pos(k) {
            Some(i) => self.e[i].as_ref().map(|(_, v)| v),
            None => None,
        }
    }
    pub fn get_mut<Q: ?Sized + Eq>(&mut self, k: &Q) -> Option<&mut V>
    where
        K: Borrow<Q>,
    {
        match self.pos(k) {
            Some(i) => self.e[i].as_mut().map(|(_, v)| v),
            None => None,
        }
    }
    pub fn contains_key<Q: ?Sized + Eq>(&self, k: &Q) -> bool
    where
        K: Borrow<Q>,
    {
        self.pos(k).is_some()
    }
    pub fn insert(&mut self, k: K, v: V) -> Option<V> {
        match self.pos(&k) {
            Some(i) => self.e[i].replace((k, v)).map(|(_, v)| v),
            None => {
                let mut i = 0;
                while i < CAP {
                    if self.e[i].is_none() {
                        self.e[i] = Some((k, v));
                        return None;
                    }
                    i += 1;
                }
                out_of_bound()
            }
        }
    }
    pub fn remove<Q: ?Sized + Eq>(&mut self, k: &Q) -> Option<V>
    where
        K: Borrow<Q>,
    {
        match self.pos(k) {
            Some(i) => self.e[i].take().map(|(_, v)| v),
            None => None,
        }
    }
    pub fn retain<F: FnMut(&K, &mut V) -> bool>(&mut self, mut f: F) {
        let mut i = 0;
        while i < CAP {
            let keep = match &mut self.e[i] {
                Some((k, v)) => f(k, v),
                None => true,
            };
            if !keep {
                self.e[i] = None;
            }
            i += 1;
        }
    }
    pub fn iter(&self) -> Iter<'_, K, V> {
        Iter { m: self, i: 0 }
    }
    pub fn keys(&self) -> Keys<'_, K, V> {
        Keys { it: self.iter() }
    }
}

pub struct Iter<'a, K, V> {
    m: &'a HashMap<K, V>,
    i: usize,
}
impl<'a, K, V> Iterator for Iter<'a, K, V> {
    type Item = (&'a K, &'a V);
    fn next(&mut self) -> Option<Self::Item> {
        while self.i < CAP {
            let j = self.i;
            self.i += 1;
            if let Some((k, v)) = &self.m.e[j] {
                return Some((k, v));
            }
        }
        None
    }
}
pub struct Keys<'a, K, V> {
    it: Iter<'a, K, V>,
}
impl<'a, K, V> Iterator for Keys<'a, K, V> {
    type Item = &'a K;
    fn next(&mut self) -> Option<&'a K> {
        self.it.next().map(|(k, _)| k)
    }
}
impl<'a, K, V> fmt::Debug for Keys<'a, K, V> {
    fn fmt(&self, f: &mut fmt::Formatter<'_>) -> fmt::Result {
        write!(f, "Keys")
    }
}

impl<K: Eq, V: PartialEq> PartialEq for HashMap<K, V> {
    fn eq(&self, o: &Self) -> bool {
        self.len() == o.len() && self.iter().all(|(k, v)| o.get(k) == Some(v))
    }
}
impl<K: Eq, V: Eq> Eq for HashMap<K, V> {}

impl<K: Eq, V> FromIterator<(K, V)> for HashMap<K, V> {
    fn from_iter<I: IntoIterator<Item = (K, V)>>(it: I) -> Self {
        let mut m = HashMap::new();
        for (k, v) in it {
            m.insert(k, v);
        }
        m
    }
}
pub struct IntoIter<K, V> {
    e: [Option<(K, V)>; CAP],
    i: usize,
}
impl<K, V> Iterator for IntoIter<K, V> {
    type Item = (K, V);
    fn next(&mut self) -> Option<(K, V)> {
        while self.i < CAP {
            let j = self.i;
            self.i += 1;
            if let Some(x) = self.e[j].take() {
                return Some(x);
            }
        }
        None
    }
}
impl<K: Eq, V> IntoIterator for HashMap<K, V> {
    type Item = (K, V);
    type IntoIter = IntoIter<K, V>;
    fn into_iter(self) -> Self::IntoIter {
        IntoIter { e: self.e, i: 0 }
    }
}
impl<K: Eq + Borrow<Q>, Q: ?Sized + Eq, V> std::ops::Index<&Q> for HashMap<K, V> {
    type Output = V;
    fn index(&self, k: &Q) -> &V {
        self.get(k).expect("no entry found for key")
    }
}

#[derive(Clone, Debug)]
pub struct HashSet<T> {
    m: HashMap<T, ()>,
}
impl<T: Eq> Default for HashSet<T> {
    fn default() -> Self {
        Self::new()
    }
}
impl<T: Eq> HashSet<T> {
    pub fn new() -> Self {
        HashSet { m: HashMap::new() }
    }
    pub fn len(&self) -> usize {
        self.m.len()
    }
    pub fn is_empty(&self) -> bool {
        self.m.is_empty()
    }
    pub fn contains(&self, t: &T) -> bool {
        self.m.contains_key(t)
    }
    pub fn insert(&mut self, t: T) -> bool {
        self.m.insert(t, ()).is_none()
    }
    pub fn remove(&mut self, t: &T) -> bool {
        self.m.remove(t).is_some()
    }
    pub fn drain(&mut self) -> std::iter::Map<IntoIter<T, ()>, fn((T, ())) -> T> {
        fn fst<T>(x: (T, ())) -> T {
            x.0
        }
        std::mem::take(&mut self.m).into_iter().map(fst::<T> as fn((T, ())) -> T)
    }
    pub fn iter(&self) -> Keys<'_, T, ()> {
        self.m.keys()
    }
}
impl<T: Eq> Extend<T> for HashSet<T> {
    fn extend<I: IntoIterator<Item = T>>(&mut self, it: I) {
        for t in it {
            self.insert(t);
        }
    }
}
impl<T: Eq> FromIterator<T> for HashSet<T> {
    fn from_iter<I: IntoIterator<Item = T>>(it: I) -> Self {
        let mut s = HashSet::new();
        s.extend(it);
        s
    }
}
impl<T: Eq> PartialEq for HashSet<T> {
    fn eq(&self, o: &Self) -> bool {
        self.m == o.m
    }
}
impl<T: Eq> Eq for HashSet<T> {}
