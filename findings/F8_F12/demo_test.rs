// Demonstration of F8 (C05) and F12 (C14): a `#[cfg(test)] mod verif_tests` appended to watchtower-plugin/src/main.rs.
// The Plugin handle is built by running the CLN handshake over in-memory pipes (helper by courtesy of a seeding agent).
#[cfg(test)]
mod verif_tests {
    use super::*;

    use tempdir::TempDir;
    use tokio::io::{duplex, AsyncWriteExt, DuplexStream};

    use teos_common::cryptography::get_random_bytes;
    use teos_common::test_utils::{get_random_registration_receipt, get_random_user_id, TX_HEX};
    use watchtower_plugin::AppointmentStatus;

    type State = Arc<Mutex<WTClient>>;

    async fn get_plugin(state: State) -> (Plugin<State>, DuplexStream, DuplexStream) {
        let (mut cln_tx, plugin_rx) = duplex(1 << 16);
        let (plugin_tx, cln_rx) = duplex(1 << 16);
        let get_manifest = json!({"jsonrpc": "2.0", "id": 1, "method": "getmanifest", "params": {}});
        let init = json!({"jsonrpc": "2.0", "id": 2, "method": "init", "params": {
            "options": {},
            "configuration": {"lightning-dir": "/tmp", "rpc-file": "lightning-rpc", "startup": true, "network": "regtest", "feature_set": {}}
        }});
        cln_tx.write_all(format!("{get_manifest}\n\n{init}\n\n").as_bytes()).await.unwrap();
        let plugin = Builder::new(plugin_rx, plugin_tx).with_logging(false).start(state).await.unwrap().unwrap();
        (plugin, cln_tx, cln_rx)
    }

    fn revocation(commit_num: u32) -> serde_json::Value {
        json!({
            "channel_id": "00".repeat(32),
            "commitnum": commit_num,
            "commitment_txid": get_random_bytes(32).iter().map(|b| format!("{b:02x}")).collect::<String>(),
            "penalty_tx": TX_HEX,
        })
    }

    fn locator_of(revocation: &serde_json::Value) -> Locator {
        Locator::new(serde_json::from_value::<CommitmentRevocation>(revocation.clone()).unwrap().commitment_txid)
    }

    async fn client_with_tower(url: &str) -> (State, TowerId, TempDir) {
        let tmp_path = TempDir::new(&format!("watchtower_{}", get_random_user_id())).unwrap();
        let (tx, rx) = unbounded_channel();
        std::mem::forget(rx); // keep the channel open: there is no retry manager in this test
        let wt_client = Arc::new(Mutex::new(WTClient::new(tmp_path.path().to_path_buf(), tx).await));
        let tower_id = get_random_user_id();
        wt_client.lock().unwrap().add_update_tower(tower_id, url, &get_random_registration_receipt()).unwrap();
        (wt_client, tower_id, tmp_path)
    }

    /// F8: the tower answers add_appointment with 200 and a body that is not the expected JSON.
    #[tokio::test]
    async fn verif_f8_garbage_reply_is_still_recorded() {
        let mut server = mockito::Server::new_async().await;
        let _m = server
            .mock("POST", Endpoint::AddAppointment.path().as_str())
            .with_status(200)
            .with_header("content-type", "application/json")
            .with_body("garbage")
            .create_async()
            .await;
        let (wt_client, tower_id, _tmp) = client_with_tower(&server.url()).await;
        let (plugin, _a, _b) = get_plugin(wt_client.clone()).await;
        let rev = revocation(1);
        on_commitment_revocation(plugin.clone(), rev.clone()).await.unwrap();
        let locator = locator_of(&rev);
        let state = wt_client.lock().unwrap();
        let accepted = state.get_appointment_receipt(tower_id, locator).is_some();
        let pending = state.dbm.load_appointment_locators(tower_id, AppointmentStatus::Pending).contains(&locator);
        let invalid = state.dbm.load_appointment_locators(tower_id, AppointmentStatus::Invalid).contains(&locator);
        assert!(accepted || pending || invalid, "the revocation is recorded nowhere for the tower (not accepted, not pending, not invalid)");
    }

    /// F12: the tower answers 200 with a well-formed reply whose signature is not a decodable recoverable signature.
    #[tokio::test]
    async fn verif_f12_undecodable_tower_signature_does_not_panic() {
        let mut server = mockito::Server::new_async().await;
        let _m = server
            .mock("POST", Endpoint::AddAppointment.path().as_str())
            .with_status(200)
            .with_header("content-type", "application/json")
            .with_body(json!({"locator": "00".repeat(16), "start_block": 1, "signature": "not a signature", "available_slots": 1, "subscription_expiry": 2}).to_string())
            .create_async()
            .await;
        let (wt_client, tower_id, _tmp) = client_with_tower(&server.url()).await;
        let (plugin, _a, _b) = get_plugin(wt_client.clone()).await;
        let rev = revocation(1);
        let r = tokio::spawn(on_commitment_revocation(plugin.clone(), rev.clone())).await;
        assert!(r.is_ok(), "the commitment-revocation hook panicked on a tower-controlled signature string");
        let _ = tower_id;
    }
}
