// Demonstration of F10 (C10): appended to the `tests` module of teos/src/watcher.rs.
// Two concurrent submissions of the *same* new appointment are both charged a slot: the slot is charged under the
// users lock (add_update_appointment reads "no such appointment yet"), but the appointment row is only written later,
// under the locator-cache lock, so the second request also reads "no such appointment yet".
#[tokio::test(flavor = "multi_thread", worker_threads = 4)]
async fn verif_f10_same_appointment_twice_concurrently_is_charged_once() {
    let mut chain = Blockchain::default().with_height_and_txs(START_HEIGHT, 10);
    let (watcher, _s) = init_watcher(&mut chain).await;
    let watcher = Arc::new(watcher);
    let (user_sk, user_pk) = get_random_keypair();
    let user_id = UserId(user_pk);
    watcher.register(user_id).unwrap();
    let mut double_charged = 0;
    let attempts = 4000;
    for _ in 0..attempts {
        watcher.register(user_id).unwrap(); // top the balance up
        let before = watcher.get_user_info(user_id).unwrap().0.available_slots;
        let appointment = generate_dummy_appointment(None).inner;
        let sig = cryptography::sign(&appointment.to_vec(), &user_sk);
        let barrier = Arc::new(std::sync::Barrier::new(4));
        let mut handles = Vec::new();
        for _ in 0..4 {
            let (w, a, s, b) = (watcher.clone(), appointment.clone(), sig.clone(), barrier.clone());
            handles.push(std::thread::spawn(move || {
                b.wait();
                w.add_appointment(a, s).unwrap();
            }));
        }
        for h in handles {
            h.join().unwrap();
        }
        let after = watcher.get_user_info(user_id).unwrap().0.available_slots;
        // one appointment (one uuid, one row) was stored: exactly one slot may be gone
        if before - after != 1 {
            double_charged += 1;
        }
    }
    assert_eq!(double_charged, 0, "{double_charged} of {attempts} concurrent double submissions were charged twice");
}
