// Demonstration of F15 (C11, C01): appended to the `tests` module of teos/src/watcher.rs.
// Any registered user can make the tower panic with the locator-cache mutex held (poisoning it, after which every
// add_appointment and every block connection panics): send an appointment whose locator is a recently confirmed
// transaction and whose blob decrypts to a transaction the node reports as "already in chain" (-27), twice.
// First request: handle_breach returns IrrevocablyResolved -> not "Rejected" -> the appointment row is kept without a
// tracker. Second request: cache hit again -> `store_appointment(..).unwrap()` on the existing row -> panic.
#[tokio::test]
async fn verif_f15_resubmitting_a_late_appointment_already_in_chain() {
    let mut chain = Blockchain::default().with_height_and_txs(START_HEIGHT, 10);
    let tip_txs = chain.blocks.last().unwrap().txdata.clone();
    let dbm = Arc::new(Mutex::new(DBM::in_memory().unwrap()));
    // the node answers every sendrawtransaction with RPC_VERIFY_ALREADY_IN_CHAIN
    let bitcoind_mock = BitcoindMock::new(MockOptions::with_error(
        crate::rpc_errors::RPC_VERIFY_ALREADY_IN_CHAIN as i64,
    ));
    let gk = Arc::new(Gatekeeper::new(chain.get_block_count(), SLOTS, DURATION, EXPIRY_DELTA, dbm.clone()));
    let responder = create_responder(&mut chain, gk.clone(), dbm.clone(), bitcoind_mock.url()).await;
    let (watcher, _s) = create_watcher(&mut chain, Arc::new(responder), gk, bitcoind_mock, dbm).await;

    let (user_sk, user_pk) = get_random_keypair();
    watcher.register(UserId(user_pk)).unwrap();
    // the dispute is a transaction of the tip block (it is in the locator cache)
    let dispute_txid = tip_txs[0].compute_txid();
    let appointment = generate_dummy_appointment(Some(&dispute_txid)).inner;
    let sig = cryptography::sign(&appointment.to_vec(), &user_sk);

    // first submission: accepted (the penalty is "already in chain": nothing to respond to)
    watcher.add_appointment(appointment.clone(), sig.clone()).unwrap();
    // the appointment must not linger without a tracker ...
    assert_eq!(watcher.get_appointments_count(), 0);
    // ... so that the very same request can be served again instead of panicking
    assert!(watcher.add_appointment(appointment, sig).is_ok());
}
