// Demonstration of F21 (C11): appended to the `tests` module of teos/src/watcher.rs.
// A request passes the "subscription not expired" check, then a block connection whose height has moved past
// expiry + grace purges the user (heights jump when the tower catches up after an outage while the request waits for a
// lock, or after a forced update - see the NOTE in Gatekeeper::get_outdated_users), and the handler looks the user up again:
// Gatekeeper::add_update_appointment does `registered_users.get_mut(&user_id).unwrap()` *with the users lock held*, so the
// mutex is poisoned and every later request and block connection panics too.
// The schedule is forced with the tower's own locks: the test holds the database lock, which parks the request in
// `responder.has_tracker()` (after the expiry check, before the slots are charged) and parks the purge after it has
// removed the user from memory.
#[tokio::test(flavor = "multi_thread", worker_threads = 4)]
async fn verif_f21_user_purged_after_the_expiry_check() {
    use std::panic::{catch_unwind, AssertUnwindSafe};
    use std::time::Duration;
    let mut chain = Blockchain::default().with_height_and_txs(START_HEIGHT, 10);
    let (watcher, _s) = init_watcher(&mut chain).await;
    let watcher = Arc::new(watcher);
    let header = chain.tip().header;
    let purge_height = chain.get_block_count() + 1000;

    let (user_sk, user_pk) = get_random_keypair();
    let user_id = UserId(user_pk);
    // expires at purge_height - EXPIRY_DELTA: not expired now, outdated at purge_height
    watcher.gatekeeper.add_outdated_user(user_id, purge_height);
    let appointment = generate_dummy_appointment(None).inner;
    let sig = cryptography::sign(&appointment.to_vec(), &user_sk);

    let dbm_guard = watcher.dbm.lock().unwrap();
    let w = watcher.clone();
    let request = std::thread::spawn(move || {
        catch_unwind(AssertUnwindSafe(|| w.add_appointment(appointment, sig))).map_err(|_| ())
    });
    std::thread::sleep(Duration::from_millis(300)); // the request is now waiting for the database in has_tracker()
    let w = watcher.clone();
    let block = std::thread::spawn(move || {
        chain::Listen::filtered_block_connected(&*w.gatekeeper, &header, &[], purge_height)
    });
    std::thread::sleep(Duration::from_millis(300)); // the user is gone from memory, the purge waits for the database
    assert!(!watcher.gatekeeper.get_registered_users().lock().unwrap().contains_key(&user_id));
    drop(dbm_guard);
    block.join().unwrap();
    let answer = request.join().unwrap();

    assert!(answer.is_ok(), "the request handler panicked instead of answering");
    assert!(answer.unwrap().is_err(), "a purged user cannot be served");
    assert!(
        !watcher.gatekeeper.get_registered_users().is_poisoned(),
        "the users mutex is poisoned: the tower cannot serve requests or process blocks any more"
    );
}
