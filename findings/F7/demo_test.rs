// Demonstration of F7 (C04/C11, known finding) and F5 (C12, known finding): appended to the `tests` module of
// teos/src/responder.rs.

// F7: a stale penalty that the node reports as already in the chain (-27) on re-submission makes
// rebroadcast_stale_txs unwrap() a MissingField error: the chain thread panics with the dbm and carrier locks held.
#[tokio::test]
async fn verif_f7_rebroadcast_of_a_penalty_that_is_already_in_chain() {
    let (responder, _s) = init_responder(MockedServerQuery::Error(
        crate::rpc_errors::RPC_VERIFY_ALREADY_IN_CHAIN as i64,
    ))
    .await;
    let height = 100;
    responder.add_random_tracker(ConfirmationStatus::InMempoolSince(height - CONFIRMATIONS_BEFORE_RETRY as u32));
    // must not panic
    let _ = responder.rebroadcast_stale_txs(height);
}

// F5: bitcoind goes away while a block is being processed. The listener (here: rebroadcast_stale_txs, called from
// Responder::filtered_block_connected on the chain-monitor thread) blocks in Carrier::hang_until_bitcoind_reachable. The
// only notify_all of the crate is in ChainMonitor::poll_best_tip, i.e. in the caller of this very listener, so nobody
// wakes it up: the thread is still blocked after the node is back.
#[tokio::test(flavor = "multi_thread", worker_threads = 2)]
async fn verif_f5_outage_while_processing_a_block_parks_the_chain_thread() {
    let dbm = Arc::new(Mutex::new(DBM::in_memory().unwrap()));
    let mut chain = Blockchain::default().with_height_and_txs(START_HEIGHT, 10);
    // a bitcoind that is not there: every RPC fails with a transport error
    let (responder, _s) = {
        let gk = Gatekeeper::new(chain.get_block_count(), SLOTS, DURATION, EXPIRY_DELTA, dbm.clone());
        let bitcoind_mock = crate::test_utils::BitcoindMock::new(crate::test_utils::MockOptions::default());
        let url = bitcoind_mock.url().to_owned();
        drop(bitcoind_mock); // never started: connection refused
        (crate::test_utils::create_responder(&mut chain, Arc::new(gk), dbm, &url).await, ())
    };
    let responder = Arc::new(responder);
    let height = 100;
    responder.add_random_tracker(ConfirmationStatus::InMempoolSince(height - CONFIRMATIONS_BEFORE_RETRY as u32));
    let r2 = responder.clone();
    let chain_thread = std::thread::spawn(move || {
        // what poll_best_tip -> SpvClient -> Listen::filtered_block_connected ends up calling
        let _ = r2.rebroadcast_stale_txs(height);
    });
    std::thread::sleep(std::time::Duration::from_secs(2));
    // nobody else in the tower sets the flag or notifies: the chain thread is parked for good
    assert!(chain_thread.is_finished(), "the chain-processing thread is still parked in hang_until_bitcoind_reachable and only it could have woken itself up");
}
