// Demonstration of F13 (C11, C04): appended to the `tests` module of teos/src/responder.rs.
// A tracker whose confirming block was disconnected is remembered in `reorged_trackers`. If its owner's subscription
// is outdated when the next block is connected, the Gatekeeper (first listener) deletes the user and, by cascade, the
// tracker; the Responder (last listener) then calls `handle_reorged_txs`, which does
// `dbm.load_tracker(uuid).unwrap()` on the vanished tracker: a panic on the chain-processing thread with the carrier
// and dbm locks held (both mutexes are poisoned; every later request and block panics too).
#[tokio::test]
async fn verif_f13_reorged_tracker_of_a_purged_user() {
    let (responder, _s) = init_responder(MockedServerQuery::Regular).await;
    // a tracker confirmed at height 42 whose block gets disconnected
    let tracker = responder.add_random_tracker(ConfirmationStatus::ConfirmedIn(42));
    responder.block_disconnected(&chain_header(), 42);
    assert_eq!(responder.reorged_trackers.lock().unwrap().len(), 1);
    // the owner is purged before the next block reaches the responder (what Gatekeeper::filtered_block_connected does)
    responder.dbm.lock().unwrap().batch_remove_users(&[tracker.user_id]);
    assert!(responder.get_trackers().is_empty());
    // the next block connection must survive
    assert_eq!(responder.handle_reorged_txs(42), None);
    assert!(responder.reorged_trackers.lock().unwrap().is_empty());
}

fn chain_header() -> bitcoin::block::Header {
    Blockchain::default().with_height(1).tip().header
}
