// Demonstration of F2 (C19): appended to the `tests` module of teos/src/tx_index.rs.
// After a block disconnection, `get_height` of the blocks that are still live is off by one
// (by d after d disconnections) until the index is refilled.
#[tokio::test]
async fn verif_f2_height_after_disconnection() {
    let cache_size = 6;
    let height = 20;
    let mut chain = Blockchain::default().with_height_and_txs(height, 4);
    let mut cache: TxIndex<Locator, Transaction> =
        TxIndex::new(&get_last_n_blocks(&mut chain, cache_size).await, height as u32);
    let tip = chain.at_height(height).deref().header;
    let prev = chain.at_height(height - 1).deref().header;
    assert_eq!(cache.get_height(&prev.block_hash()).unwrap(), height - 1);
    // the tip is reorged out
    cache.remove_disconnected_block(&tip.block_hash());
    // the previous block is still at height-1 on the active chain
    assert_eq!(cache.get_height(&prev.block_hash()).unwrap(), height - 1);
}
