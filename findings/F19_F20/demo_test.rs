// Demonstration of F19 and F20 (C14): a `#[cfg(test)] mod verif_tests_f19` appended to watchtower-plugin/src/main.rs.
// The Plugin handle is built by running the CLN handshake over in-memory pipes (helper by courtesy of a seeding agent).
#[cfg(test)]
mod verif_tests_f19 {
    use super::*;

    use tempdir::TempDir;
    use tokio::io::{duplex, AsyncWriteExt, DuplexStream};

    use teos_common::cryptography::get_random_bytes;
    use teos_common::test_utils::{get_random_registration_receipt, get_random_user_id, TX_HEX};
    use watchtower_plugin::AppointmentStatus;

    type State = Arc<Mutex<WTClient>>;

    async fn get_plugin(state: State) -> (Plugin<State>, DuplexStream, DuplexStream) {
        let (mut cln_tx, plugin_rx) = duplex(1 << 16);
        let (plugin_tx, cln_rx) = duplex(1 << 16);
        let get_manifest = json!({"jsonrpc": "2.0", "id": 1, "method": "getmanifest", "params": {}});
        let init = json!({"jsonrpc": "2.0", "id": 2, "method": "init", "params": {
            "options": {},
            "configuration": {"lightning-dir": "/tmp", "rpc-file": "lightning-rpc", "startup": true, "network": "regtest", "feature_set": {}}
        }});
        cln_tx.write_all(format!("{get_manifest}\n\n{init}\n\n").as_bytes()).await.unwrap();
        let plugin = Builder::new(plugin_rx, plugin_tx).with_logging(false).start(state).await.unwrap().unwrap();
        (plugin, cln_tx, cln_rx)
    }

    fn revocation(commit_num: u32) -> serde_json::Value {
        json!({
            "channel_id": "00".repeat(32),
            "commitnum": commit_num,
            "commitment_txid": get_random_bytes(32).iter().map(|b| format!("{b:02x}")).collect::<String>(),
            "penalty_tx": TX_HEX,
        })
    }

    fn locator_of(revocation: &serde_json::Value) -> Locator {
        Locator::new(serde_json::from_value::<CommitmentRevocation>(revocation.clone()).unwrap().commitment_txid)
    }

    async fn client_with_tower(url: &str) -> (State, TowerId, TempDir) {
        let tmp_path = TempDir::new(&format!("watchtower_{}", get_random_user_id())).unwrap();
        let (tx, rx) = unbounded_channel();
        std::mem::forget(rx); // keep the channel open: there is no retry manager in this test
        let wt_client = Arc::new(Mutex::new(WTClient::new(tmp_path.path().to_path_buf(), tx).await));
        let tower_id = get_random_user_id();
        wt_client.lock().unwrap().add_update_tower(tower_id, url, &get_random_registration_receipt()).unwrap();
        (wt_client, tower_id, tmp_path)
    }

    async fn tower_signing_with(server: &mut mockito::Server, keys: Vec<bitcoin::secp256k1::SecretKey>) -> mockito::Mock {
        let n = std::sync::atomic::AtomicUsize::new(0);
        server
            .mock("POST", Endpoint::AddAppointment.path().as_str())
            .with_status(200)
            .with_header("content-type", "application/json")
            .with_body_from_request(move |req| {
                let i = n.fetch_add(1, std::sync::atomic::Ordering::SeqCst).min(keys.len() - 1);
                let body: serde_json::Value = serde_json::from_slice(req.body().unwrap()).unwrap();
                let user_sig = body["signature"].as_str().unwrap().to_owned();
                let mut receipt = teos_common::receipts::AppointmentReceipt::new(user_sig, 1);
                receipt.sign(&keys[i]);
                json!({"locator": body["appointment"]["locator"], "start_block": 1, "signature": receipt.signature().unwrap(),
                       "available_slots": 5, "subscription_expiry": 100}).to_string().into()
            })
            .expect_at_least(1)
            .create_async()
            .await
    }

    async fn client_with_tower_id(url: &str, tower_id: TowerId) -> (State, TempDir) {
        let tmp_path = TempDir::new(&format!("watchtower_{}", get_random_user_id())).unwrap();
        let (tx, rx) = unbounded_channel();
        std::mem::forget(rx);
        let wt_client = Arc::new(Mutex::new(WTClient::new(tmp_path.path().to_path_buf(), tx).await));
        wt_client.lock().unwrap().add_update_tower(tower_id, url, &get_random_registration_receipt()).unwrap();
        (wt_client, tmp_path)
    }

    /// F19: the tower accepts an appointment (valid receipt stored); the same revocation is notified again and this time
    /// the tower answers with a receipt signed by another key. Flagging it stores the proof's receipt under the same
    /// (locator, tower) key as the receipt already held: UNIQUE violation, unwrap() with the client mutex held.
    #[tokio::test]
    async fn verif_f19_misbehaving_reply_for_an_already_accepted_appointment() {
        let mut server = mockito::Server::new_async().await;
        let (tower_sk, tower_pk) = cryptography::get_random_keypair();
        let (other_sk, _) = cryptography::get_random_keypair();
        let _m = tower_signing_with(&mut server, vec![tower_sk, other_sk]).await;
        let tower_id = TowerId(tower_pk);
        let (wt_client, _tmp) = client_with_tower_id(&server.url(), tower_id).await;
        let (plugin, _a, _b) = get_plugin(wt_client.clone()).await;
        let rev = revocation(1);
        on_commitment_revocation(plugin.clone(), rev.clone()).await.unwrap();
        assert!(wt_client.lock().unwrap().get_appointment_receipt(tower_id, locator_of(&rev)).is_some());
        let second = tokio::spawn(on_commitment_revocation(plugin.clone(), rev.clone())).await;
        assert!(second.is_ok(), "the hook panicked while flagging the tower");
        assert!(wt_client.lock().is_ok(), "the client state mutex is poisoned");
        let state = wt_client.lock().unwrap();
        assert!(state.get_tower_status(&tower_id).unwrap().is_misbehaving());
        assert!(state.load_tower_info(tower_id).unwrap().misbehaving_proof.is_some(), "the proof is not persisted");
    }

    /// F20: two revocations (two channels) are in flight to the same tower and both replies carry a signature by another
    /// key. The second flag_misbehaving_tower inserts a second proof for the tower: UNIQUE violation on
    /// misbehaving_proofs.tower_id, unwrap() with the client mutex held.
    #[tokio::test]
    async fn verif_f20_two_misbehaving_replies_in_flight() {
        let mut server = mockito::Server::new_async().await;
        let (_, tower_pk) = cryptography::get_random_keypair();
        let (other_sk, _) = cryptography::get_random_keypair();
        let _m = tower_signing_with(&mut server, vec![other_sk]).await;
        let tower_id = TowerId(tower_pk);
        let (wt_client, _tmp) = client_with_tower_id(&server.url(), tower_id).await;
        let (plugin, _a, _b) = get_plugin(wt_client.clone()).await;
        let h1 = tokio::spawn(on_commitment_revocation(plugin.clone(), revocation(1)));
        let h2 = tokio::spawn(on_commitment_revocation(plugin.clone(), revocation(2)));
        let (r1, r2) = (h1.await, h2.await);
        assert!(r1.is_ok() && r2.is_ok(), "a hook panicked while flagging the tower");
        assert!(wt_client.lock().is_ok(), "the client state mutex is poisoned");
        let state = wt_client.lock().unwrap();
        assert!(state.get_tower_status(&tower_id).unwrap().is_misbehaving());
        assert!(state.load_tower_info(tower_id).unwrap().misbehaving_proof.is_some(), "the proof is not persisted");
    }
}
