// Demonstration of F18 (C11): appended to the `tests` module of teos/src/watcher.rs.
// A request handler authenticates its user (users lock taken and released) and then asks the Gatekeeper for the same user
// again with `has_subscription_expired(user_id).unwrap()` (users lock taken a second time). A block that purges the user
// between the two critical sections makes the second look-up fail and the handler panics (the request is aborted instead
// of being answered with an authentication failure, which is what the same request gets one instant later).
#[tokio::test(flavor = "multi_thread", worker_threads = 4)]
async fn verif_f18_request_racing_the_purge_of_its_user_is_answered() {
    use std::panic::{catch_unwind, AssertUnwindSafe};
    let mut chain = Blockchain::default().with_height_and_txs(START_HEIGHT, 10);
    let (watcher, _s) = init_watcher(&mut chain).await;
    let watcher = Arc::new(watcher);
    let header = chain.tip().header;
    let purge_height = chain.get_block_count() + 1;
    let attempts = 20000u32;
    let mut aborted = 0;
    let prev_hook = std::panic::take_hook();
    std::panic::set_hook(Box::new(|_| {}));
    for i in 0..attempts {
        let (user_sk, user_pk) = get_random_keypair();
        let user_id = UserId(user_pk);
        watcher.gatekeeper.add_outdated_user(user_id, purge_height);
        let sig = cryptography::sign("get subscription info".as_bytes(), &user_sk);
        let barrier = Arc::new(std::sync::Barrier::new(2));
        let (w, b) = (watcher.clone(), barrier.clone());
        let request = std::thread::spawn(move || {
            b.wait();
            catch_unwind(AssertUnwindSafe(|| w.get_subscription_info(&sig).is_ok())).is_err()
        });
        let (w, b) = (watcher.clone(), barrier.clone());
        let block = std::thread::spawn(move || {
            b.wait();
            // the request spends its first microseconds recovering the key: sweep the offset of the purge
            for _ in 0..(i % 400) * 25 {
                std::hint::spin_loop();
            }
            chain::Listen::filtered_block_connected(&*w.gatekeeper, &header, &[], purge_height);
        });
        block.join().unwrap();
        if request.join().unwrap() {
            aborted += 1;
        }
    }
    std::panic::set_hook(prev_hook);
    assert_eq!(aborted, 0, "{aborted} of {attempts} requests racing the purge of their user panicked");
}
