// Demonstration of F11 (C13): appended to the `tests` module of watchtower-plugin/src/retrier.rs.
// A tower that answers the retried add_appointment with something that is not the expected JSON (here: 200 + "garbage")
// makes Retrier::run spin: the request error is not a connection error, so the run neither ends (no back-off) nor
// removes the locator from the pending set, and `while self.has_pending_appointments()` re-sends immediately, forever.
#[tokio::test]
async fn verif_f11_garbage_reply_does_not_spin() {
    let tmp_path = TempDir::new(&format!("watchtower_{}", get_random_user_id())).unwrap();
    let (tx, _rx) = unbounded_channel();
    let wt_client = Arc::new(Mutex::new(
        WTClient::new(tmp_path.path().to_path_buf(), tx.clone()).await,
    ));
    let mut server = mockito::Server::new_async().await;
    let (_, tower_pk) = cryptography::get_random_keypair();
    let tower_id = TowerId(tower_pk);
    let receipt = get_random_registration_receipt();
    wt_client.lock().unwrap().add_update_tower(tower_id, &server.url(), &receipt).unwrap();
    let appointment = generate_random_appointment(None);
    wt_client.lock().unwrap().add_pending_appointment(tower_id, &appointment);
    let api_mock = server
        .mock("POST", Endpoint::AddAppointment.path().as_str())
        .with_status(200)
        .with_header("content-type", "application/json")
        .with_body("garbage")
        .expect_at_most(3)
        .create_async()
        .await;

    let retrier = Retrier::new(wt_client.clone(), tower_id, HashSet::from_iter([appointment.locator]));
    // one run must come back (with an error, so that the back-off strategy decides when to try again)
    let r = tokio::time::timeout(Duration::from_secs(3), retrier.run()).await;
    assert!(r.is_ok(), "Retrier::run did not return within 3 s: it keeps re-sending without back-off");
    assert!(r.unwrap().is_err());
    // and the data is still pending
    assert!(wt_client.lock().unwrap().towers[&tower_id].pending_appointments.contains(&appointment.locator));
    api_mock.assert_async().await;
}
