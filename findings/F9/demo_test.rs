// Demonstration of F9 (C05): a `#[cfg(test)] mod verif_tests_f9` appended to watchtower-plugin/src/main.rs.
// The Plugin handle is built by running the CLN handshake over in-memory pipes (helper by courtesy of a seeding agent).
#[cfg(test)]
mod verif_tests_f9 {
    use super::*;

    use tempdir::TempDir;
    use tokio::io::{duplex, AsyncWriteExt, DuplexStream};

    use teos_common::cryptography::get_random_bytes;
    use teos_common::test_utils::{get_random_registration_receipt, get_random_user_id, TX_HEX};
    use watchtower_plugin::AppointmentStatus;

    type State = Arc<Mutex<WTClient>>;

    async fn get_plugin(state: State) -> (Plugin<State>, DuplexStream, DuplexStream) {
        let (mut cln_tx, plugin_rx) = duplex(1 << 16);
        let (plugin_tx, cln_rx) = duplex(1 << 16);
        let get_manifest = json!({"jsonrpc": "2.0", "id": 1, "method": "getmanifest", "params": {}});
        let init = json!({"jsonrpc": "2.0", "id": 2, "method": "init", "params": {
            "options": {},
            "configuration": {"lightning-dir": "/tmp", "rpc-file": "lightning-rpc", "startup": true, "network": "regtest", "feature_set": {}}
        }});
        cln_tx.write_all(format!("{get_manifest}\n\n{init}\n\n").as_bytes()).await.unwrap();
        let plugin = Builder::new(plugin_rx, plugin_tx).with_logging(false).start(state).await.unwrap().unwrap();
        (plugin, cln_tx, cln_rx)
    }

    fn revocation(commit_num: u32) -> serde_json::Value {
        json!({
            "channel_id": "00".repeat(32),
            "commitnum": commit_num,
            "commitment_txid": get_random_bytes(32).iter().map(|b| format!("{b:02x}")).collect::<String>(),
            "penalty_tx": TX_HEX,
        })
    }

    fn locator_of(revocation: &serde_json::Value) -> Locator {
        Locator::new(serde_json::from_value::<CommitmentRevocation>(revocation.clone()).unwrap().commitment_txid)
    }

    async fn client_with_tower(url: &str) -> (State, TowerId, TempDir) {
        let tmp_path = TempDir::new(&format!("watchtower_{}", get_random_user_id())).unwrap();
        let (tx, rx) = unbounded_channel();
        std::mem::forget(rx); // keep the channel open: there is no retry manager in this test
        let wt_client = Arc::new(Mutex::new(WTClient::new(tmp_path.path().to_path_buf(), tx).await));
        let tower_id = get_random_user_id();
        wt_client.lock().unwrap().add_update_tower(tower_id, url, &get_random_registration_receipt()).unwrap();
        (wt_client, tower_id, tmp_path)
    }

    /// F9: the same commitment revocation is notified twice while the tower cannot be reached (CLN re-sends hooks, e.g. on
    /// reconnection): the second `add_pending_appointment` hits the primary key of pending_appointments and unwrap()s the
    /// error while the client mutex is held.
    #[tokio::test]
    async fn verif_f9_duplicate_notification_for_an_unreachable_tower() {
        let (wt_client, tower_id, _tmp) = client_with_tower("http://unreachable.tower").await;
        let (plugin, _a, _b) = get_plugin(wt_client.clone()).await;
        let rev = revocation(1);
        on_commitment_revocation(plugin.clone(), rev.clone()).await.unwrap();
        let second = tokio::spawn(on_commitment_revocation(plugin.clone(), rev.clone())).await;
        assert!(second.is_ok(), "the hook panicked on a repeated notification");
        assert!(wt_client.lock().is_ok(), "the client state mutex is poisoned: every later hook and RPC panics");
        let locator = locator_of(&rev);
        let state = wt_client.lock().unwrap();
        assert!(state.dbm.load_appointment_locators(tower_id, AppointmentStatus::Pending).contains(&locator));
    }

    /// F9 (second site): the tower rejects the same appointment twice: the second `add_invalid_appointment` hits the
    /// primary key of invalid_appointments.
    #[tokio::test]
    async fn verif_f9_duplicate_notification_for_a_rejecting_tower() {
        let mut server = mockito::Server::new_async().await;
        let _m = server
            .mock("POST", Endpoint::AddAppointment.path().as_str())
            .with_status(400)
            .with_header("content-type", "application/json")
            .with_body(json!({"error": "rejected", "error_code": 1}).to_string())
            .create_async()
            .await;
        let (wt_client, tower_id, _tmp) = client_with_tower(&server.url()).await;
        let (plugin, _a, _b) = get_plugin(wt_client.clone()).await;
        let rev = revocation(1);
        on_commitment_revocation(plugin.clone(), rev.clone()).await.unwrap();
        let second = tokio::spawn(on_commitment_revocation(plugin.clone(), rev.clone())).await;
        assert!(second.is_ok(), "the hook panicked on a repeated notification");
        assert!(wt_client.lock().is_ok(), "the client state mutex is poisoned");
        let locator = locator_of(&rev);
        let state = wt_client.lock().unwrap();
        assert!(state.dbm.load_appointment_locators(tower_id, AppointmentStatus::Invalid).contains(&locator));
    }

    /// F9 (third site, the common case): the tower is reachable and accepts the same appointment twice: the second
    /// `add_appointment_receipt` hits the primary key of appointment_receipts.
    #[tokio::test]
    async fn verif_f9_duplicate_notification_for_an_accepting_tower() {
        let mut server = mockito::Server::new_async().await;
        let (tower_sk, tower_pk) = cryptography::get_random_keypair();
        let _m = server
            .mock("POST", Endpoint::AddAppointment.path().as_str())
            .with_status(200)
            .with_header("content-type", "application/json")
            .with_body_from_request(move |req| {
                let body: serde_json::Value = serde_json::from_slice(req.body().unwrap()).unwrap();
                let user_sig = body["signature"].as_str().unwrap().to_owned();
                let mut receipt = teos_common::receipts::AppointmentReceipt::new(user_sig, 1);
                receipt.sign(&tower_sk);
                json!({"locator": body["appointment"]["locator"], "start_block": 1, "signature": receipt.signature().unwrap(),
                       "available_slots": 5, "subscription_expiry": 100}).to_string().into()
            })
            .create_async()
            .await;
        let tmp_path = TempDir::new(&format!("watchtower_{}", get_random_user_id())).unwrap();
        let (tx, rx) = unbounded_channel();
        std::mem::forget(rx);
        let wt_client = Arc::new(Mutex::new(WTClient::new(tmp_path.path().to_path_buf(), tx).await));
        let tower_id = TowerId(tower_pk);
        wt_client.lock().unwrap().add_update_tower(tower_id, &server.url(), &get_random_registration_receipt()).unwrap();
        let (plugin, _a, _b) = get_plugin(wt_client.clone()).await;
        let rev = revocation(1);
        on_commitment_revocation(plugin.clone(), rev.clone()).await.unwrap();
        assert!(wt_client.lock().unwrap().get_appointment_receipt(tower_id, locator_of(&rev)).is_some());
        let second = tokio::spawn(on_commitment_revocation(plugin.clone(), rev.clone())).await;
        assert!(second.is_ok(), "the hook panicked on a repeated notification");
        assert!(wt_client.lock().is_ok(), "the client state mutex is poisoned");
        assert!(wt_client.lock().unwrap().get_appointment_receipt(tower_id, locator_of(&rev)).is_some());
    }
}
