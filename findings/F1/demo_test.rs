// Demonstration of F1 (C09, C11): appended to the `tests` module of teos/src/gatekeeper.rs.
// (a) a "never expires" configuration (subscription_duration = u32::MAX) makes the first registration overflow
//     `block_count + subscription_duration`: panic with the users lock held (dev) / expiry wraps to height-1 (release).
// (b) a subscription whose expiry saturated at u32::MAX makes `subscription_expiry + expiry_delta` overflow in
//     get_outdated_users: panic (dev) / the user is purged at the next block (release).
#[test]
fn verif_f1_register_with_huge_duration() {
    let chain = Blockchain::default().with_height(START_HEIGHT);
    let dbm = Arc::new(Mutex::new(DBM::in_memory().unwrap()));
    let gatekeeper = Gatekeeper::new(chain.get_block_count(), SLOTS, u32::MAX, EXPIRY_DELTA, dbm);
    let user_id = get_random_user_id();
    let receipt = gatekeeper.add_update_user(user_id).unwrap();
    // same saturation rule as the renewal branch
    assert_eq!(receipt.subscription_expiry(), u32::MAX);
    assert_eq!(gatekeeper.has_subscription_expired(user_id), Ok((false, u32::MAX)));
}

#[test]
fn verif_f1_saturated_expiry_is_not_outdated() {
    let chain = Blockchain::default().with_height(START_HEIGHT);
    let dbm = Arc::new(Mutex::new(DBM::in_memory().unwrap()));
    let gatekeeper = Gatekeeper::new(chain.get_block_count(), SLOTS, u32::MAX - 1000, EXPIRY_DELTA, dbm);
    let user_id = get_random_user_id();
    gatekeeper.add_update_user(user_id).unwrap();
    // renewal saturates the expiry at u32::MAX (existing behaviour)
    let receipt = gatekeeper.add_update_user(user_id).unwrap();
    assert_eq!(receipt.subscription_expiry(), u32::MAX);
    // the subscription is far from over: the user must not be selected for deletion
    assert!(gatekeeper.get_outdated_users(START_HEIGHT as u32 + 1).is_empty());
}
