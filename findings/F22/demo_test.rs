// Demonstration of F22 (C11, known finding): appended to the `tests` module of teos/src/watcher.rs.
// Replay of the schedule returned by the solver for C11 M3.purge_vs_store, step by step on the real components. Between
// its charge (Gatekeeper::add_update_appointment) and its store (Watcher::store_appointment) the handler of add_appointment
// holds only the locator-cache lock, which the Gatekeeper's block connection does not need, so the three steps below are
// exactly what the two threads execute in that order:
//   A: charge the slots        B: purge the user (memory, then batch_remove_users)        A: store the appointment
// The store violates the foreign key appointments.user_id -> users.user_id and the error is unwrap()ed with the dbm lock
// (and, in add_appointment, the locator-cache lock) held: the mutexes are poisoned, the tower stops serving.
#[tokio::test]
async fn verif_f22_user_purged_between_charge_and_store() {
    use std::panic::{catch_unwind, AssertUnwindSafe};
    let mut chain = Blockchain::default().with_height_and_txs(START_HEIGHT, 10);
    let (watcher, _s) = init_watcher(&mut chain).await;
    let header = chain.tip().header;
    let purge_height = chain.get_block_count() + 1000;
    let (_, user_pk) = get_random_keypair();
    let user_id = UserId(user_pk);
    watcher.gatekeeper.add_outdated_user(user_id, purge_height);
    let appointment = generate_dummy_appointment_with_user(user_id, None).1;
    let uuid = appointment.uuid();

    // A: the slots are charged (the user is there and has not expired)
    watcher.gatekeeper.add_update_appointment(user_id, uuid, &appointment).unwrap();
    // B: a block connection past expiry + grace purges the user
    chain::Listen::filtered_block_connected(&*watcher.gatekeeper, &header, &[], purge_height);
    // A: the appointment is stored
    let stored = catch_unwind(AssertUnwindSafe(|| watcher.store_appointment(uuid, &appointment)));

    assert!(stored.is_ok(), "the handler panicked while storing the appointment of a purged user");
    assert!(!watcher.dbm.is_poisoned(), "the database mutex is poisoned");
}
