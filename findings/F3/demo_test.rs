// Demonstration of F3 (C07): appended to the `tests` module of teos/src/gatekeeper.rs.
// An appointment with an empty blob costs ceil(0/2048) = 0 slots, so a user who has no slots left can still have
// any number of (distinct) appointments accepted: "never less than one" / "nobody holds more appointments than slots".
#[test]
fn verif_f3_empty_blob_costs_a_slot() {
    let gatekeeper = init_gatekeeper(&Blockchain::default().with_height(START_HEIGHT));
    let user_id = get_random_user_id();
    gatekeeper.add_update_user(user_id).unwrap();
    // use up every slot
    gatekeeper.get_registered_users().lock().unwrap().get_mut(&user_id).unwrap().available_slots = 0;
    gatekeeper.dbm.lock().unwrap().update_user(user_id, &UserInfo::new(0, START_HEIGHT as u32, START_HEIGHT as u32 + DURATION));
    let (uuid, mut appointment) = generate_dummy_appointment_with_user(user_id, None);
    appointment.inner.encrypted_blob = Vec::new();
    // no slots left: the appointment must be refused
    assert_eq!(gatekeeper.add_update_appointment(user_id, uuid, &appointment), Err(NotEnoughSlots));
}
